package nitro

// Regression replay for F10b (commit f513f9f): with user-managed memory DecodeItem allocates the item block before
// reading the item body. When the body cannot be read completely, the block has to be freed and no item may be
// returned: every caller drops the item on error, so the block would never be freed.
//
// Input: instance with a counting malloc/free pair (on top of the repository's mm package); DecodeItem(version 1)
// on the 7 byte stream 00 00 00 0a 'a' 'b' 'c' (length header 10, body cut after 3 bytes). Must return an
// error and a nil item, and the number of frees must equal the number of mallocs once the instance is closed.

import (
	"bytes"
	"sync/atomic"
	"testing"
	"time"
	"unsafe"

	"github.com/couchbase/nitro/mm"
)

var verifF10bAllocs, verifF10bFrees int64

func verifF10bMalloc(l int) unsafe.Pointer {
	atomic.AddInt64(&verifF10bAllocs, 1)
	return mm.Malloc(l)
}

func verifF10bFree(p unsafe.Pointer) {
	atomic.AddInt64(&verifF10bFrees, 1)
	mm.Free(p)
}

func TestVerifReplayF10b(t *testing.T) {
	cfg := DefaultConfig()
	cfg.UseMemoryMgmt(verifF10bMalloc, verifF10bFree)
	if !cfg.useMemoryMgmt {
		t.Skip("user-managed memory is not supported on this architecture")
	}
	atomic.StoreInt64(&verifF10bAllocs, 0)
	atomic.StoreInt64(&verifF10bFrees, 0)

	type result struct {
		itm             *Item
		err             error
		allocs, frees   int64 // caused by DecodeItem alone
		allocs2, frees2 int64 // over the whole life of the instance
	}
	done := make(chan result, 1)
	go func() {
		var r result
		db := NewWithConfig(cfg)
		a0, f0 := atomic.LoadInt64(&verifF10bAllocs), atomic.LoadInt64(&verifF10bFrees)
		stream := []byte{0, 0, 0, 10, 'a', 'b', 'c'}
		r.itm, _, r.err = db.DecodeItem(1, make([]byte, encodeBufSize), bytes.NewReader(stream))
		r.allocs = atomic.LoadInt64(&verifF10bAllocs) - a0
		r.frees = atomic.LoadInt64(&verifF10bFrees) - f0
		db.Close()
		r.allocs2, r.frees2 = atomic.LoadInt64(&verifF10bAllocs), atomic.LoadInt64(&verifF10bFrees)
		done <- r
	}()

	var r result
	select {
	case r = <-done:
	case <-time.After(5 * time.Second):
		t.Fatalf("DecodeItem / Close did not finish within 5s")
	}

	if r.err == nil {
		t.Fatalf("DecodeItem of the stream 00 00 00 0a 61 62 63 (length 10, 3 body bytes) returned no error")
	}
	if r.itm != nil || r.allocs != r.frees || r.allocs2 != r.frees2 {
		t.Fatalf("DecodeItem(version 1) of the stream 00 00 00 0a 61 62 63 (length 10, 3 body bytes) with user-managed memory: "+
			"err=%v, returned item non-nil: %v, blocks allocated/freed by the call: %d/%d, "+
			"allocated/freed after Close of the instance: %d/%d (want nil item and equal counts)",
			r.err, r.itm != nil, r.allocs, r.frees, r.allocs2, r.frees2)
	}
}
