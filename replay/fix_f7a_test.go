package nitro

// Regression replay for F7a (commit 434f23b): rawFileWriter.Close must report a failed flush. Item data is
// buffered (DiskBlockSize bytes); Close writes the terminator, flushes and closes. The flush result used to be
// dropped, so Close returned nil for a file that never received its data.
//
// Input: a file writer opened on /dev/full (every write fails with ENOSPC), one 5 byte item written (buffered,
// succeeds), then Close: must return an error.

import (
	"os"
	"testing"
	"time"
)

func TestVerifReplayF7a(t *testing.T) {
	if fd, err := os.OpenFile("/dev/full", os.O_WRONLY, 0); err != nil {
		t.Skipf("/dev/full is not available: %v", err)
	} else {
		_, werr := fd.Write([]byte("x"))
		fd.Close()
		if werr == nil {
			t.Skip("/dev/full accepts writes on this system")
		}
	}

	db := New()
	defer db.Close()

	done := make(chan error, 1)
	go func() {
		fw := db.newFileWriter(RawdbFile)
		if err := fw.Open("/dev/full"); err != nil {
			t.Errorf("setup: cannot open /dev/full through the file writer: %v", err)
			done <- err
			return
		}
		if err := fw.WriteItem(db.newItem([]byte("hello"), false)); err != nil {
			t.Errorf("setup: a buffered 5 byte item write is expected to succeed, got %v", err)
			done <- err
			return
		}
		done <- fw.Close()
	}()

	select {
	case err := <-done:
		if t.Failed() {
			t.FailNow()
		}
		if err == nil {
			t.Fatalf("file writer on /dev/full: WriteItem(\"hello\") then Close() returned nil although flushing the " +
				"buffered item must fail with ENOSPC")
		}
	case <-time.After(5 * time.Second):
		t.Fatalf("file writer on /dev/full did not finish within 5s")
	}
}
