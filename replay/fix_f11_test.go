package nitro

// Regression replay for F11 (commit 4861d09): with delta interleaving the deferred terminate handshake of
// StoreToDisk must not overwrite an error of the main backup with its own (nil) result.
//
// Input: database configured with UseDeltaInterleaving, one writer, items k0..k9 of 100 bytes; DiskBlockSize is
// lowered to 16 bytes so that an item write is flushed immediately; data/shard-<i> are pre-created as symbolic
// links to /dev/full for every shard, so the first WriteItem from the visitor fails with ENOSPC. The delta files
// are ordinary files, so the terminate handshake itself succeeds. StoreToDisk must return the write error.

import (
	"fmt"
	"os"
	"path/filepath"
	"runtime"
	"testing"
	"time"
)

func TestVerifReplayF11(t *testing.T) {
	if fd, err := os.OpenFile("/dev/full", os.O_WRONLY, 0); err != nil {
		t.Skipf("/dev/full is not available: %v", err)
	} else {
		_, werr := fd.Write([]byte("x"))
		fd.Close()
		if werr == nil {
			t.Skip("/dev/full accepts writes on this system")
		}
	}

	dir := t.TempDir()
	datadir := filepath.Join(dir, "data")
	if err := os.MkdirAll(datadir, 0755); err != nil {
		t.Fatal(err)
	}
	for i := 0; i < runtime.NumCPU(); i++ {
		if err := os.Symlink("/dev/full", filepath.Join(datadir, fmt.Sprintf("shard-%d", i))); err != nil {
			t.Skipf("cannot create symbolic links: %v", err)
		}
	}

	oldBlockSize := DiskBlockSize
	DiskBlockSize = 16
	defer func() { DiskBlockSize = oldBlockSize }()

	cfg := DefaultConfig()
	cfg.UseDeltaInterleaving()
	db := NewWithConfig(cfg)
	w := db.NewWriter()
	for i := 0; i < 10; i++ {
		w.Put([]byte(fmt.Sprintf("k%d%098d", i, 0)))
	}
	snap, _ := db.NewSnapshot()

	itemsWritten := 0 // concurrency 1: single visitor worker
	done := make(chan error, 1)
	go func() {
		// StoreToDisk closes the snapshot
		done <- db.StoreToDisk(dir, snap, 1, func(*ItemEntry) { itemsWritten++ })
	}()

	var err error
	select {
	case err = <-done:
	case <-time.After(5 * time.Second):
		t.Fatalf("StoreToDisk did not return within 5s")
	}

	_, statErr := os.Stat(filepath.Join(datadir, "files.json"))
	if err == nil {
		t.Fatalf("StoreToDisk with delta interleaving, 10 items of 100 bytes, DiskBlockSize=16, all shard files pointing to "+
			"/dev/full: returned nil although every item write fails with ENOSPC (items reported written: %d, "+
			"data/files.json exists: %v)", itemsWritten, statErr == nil)
	}
	if statErr == nil {
		t.Fatalf("StoreToDisk failed with %v but still wrote data/files.json", err)
	}
	db.Close()
}
