//go:build verif

package skiplist

// Replay for C17 (obligation Release@step#step[Release.a4].inv[K-responsibility]):
// the lost-cleanup schedule. Thread X terminates session 1 and runs the cleanup; before it releases the try-lock,
// thread Y terminates session 2, queues it and fails the try-lock; X then releases the lock without re-checking.
// At quiescence the destructor of flush 2 has not run. The test FAILS when that happens.

import (
	"sync"
	"testing"
	"time"
	"unsafe"
)

func TestVerifReplayBarrierLostCleanup(t *testing.T) {
	var mu sync.Mutex
	var destructed []int
	ab := newAccessBarrier(true, func(ref unsafe.Pointer) {
		mu.Lock()
		destructed = append(destructed, *(*int)(ref))
		mu.Unlock()
	})

	xAtUnlock := make(chan struct{})
	xMayUnlock := make(chan struct{})
	var once sync.Once
	who := map[string]bool{}
	var whoMu sync.Mutex
	VerifYieldFn = func(point string) {
		if point == "barrier.before-unlock" {
			whoMu.Lock()
			first := !who["x"]
			who["x"] = true
			whoMu.Unlock()
			if first {
				once.Do(func() { close(xAtUnlock) })
				<-xMayUnlock
			}
		}
	}
	defer func() { VerifYieldFn = nil }()

	one, two := 1, 2
	tokX := ab.Acquire() // X holds session 1
	ab.FlushSession(unsafe.Pointer(&one))
	tokY := ab.Acquire() // Y holds session 2
	ab.FlushSession(unsafe.Pointer(&two))

	doneX := make(chan struct{})
	go func() { ab.Release(tokX); close(doneX) }() // terminates session 1, cleans, pauses before the unlock
	select {
	case <-xAtUnlock:
	case <-time.After(10 * time.Second):
		t.Skip("schedule could not be steered: X never reached the unlock")
	}
	ab.Release(tokY) // terminates session 2: queues it, try-lock fails (X still holds it)
	close(xMayUnlock)
	<-doneX

	// quiescent: no accessor inside, no call in progress
	allocated, freed, queued, freeSeqno := ab.GetStats()
	mu.Lock()
	n := len(destructed)
	mu.Unlock()
	if n != 2 || queued != 0 {
		t.Fatalf("at quiescence the destructor ran for %d of 2 flushes (destructed=%v allocated=%d freed=%d queued=%d freeSeqno=%d)", n, destructed, allocated, freed, queued, freeSeqno)
	}
}
