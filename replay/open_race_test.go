//go:build verif

package nitro

// Replay for C08 (obligation Open@step#step[Open.a2].guar[g-zero]): Open is paused between reading a non-zero
// reference count and incrementing it while the last reference is closed. The count must never leave zero: Open
// has to fail, and the collector must still make progress on later snapshots. FAILS when Open resurrects the snapshot.

import (
	"sync"
	"testing"
	"time"
)

func TestVerifReplayOpenRace(t *testing.T) {
	db := New()
	defer db.Close()
	w := db.NewWriter()
	w.Put([]byte("a"))
	s1, _ := db.NewSnapshot()
	w.Delete([]byte("a"))
	s2, _ := db.NewSnapshot()
	w.Put([]byte("b"))
	s3, _ := db.NewSnapshot()

	atYield := make(chan struct{})
	resume := make(chan struct{})
	var once sync.Once
	VerifYieldFn = func(point string) {
		if point == "open.after-load" {
			first := false
			once.Do(func() { first = true })
			if first {
				close(atYield)
				<-resume
			}
		}
	}
	defer func() { VerifYieldFn = nil }()

	res := make(chan bool)
	go func() { res <- s1.Open() }() // reads refCount == 1, pauses
	select {
	case <-atYield:
	case <-time.After(10 * time.Second):
		t.Skip("schedule could not be steered")
	}
	VerifYieldFn = nil
	s1.Close() // the last reference: count reaches zero, snapshot retired
	close(resume)
	opened := <-res
	if opened {
		t.Fatalf("Open succeeded on a snapshot whose reference count had reached zero")
	}
	s2.Close()
	s3.Close()
	db.GC()
	deadline := time.Now().Add(5 * time.Second)
	for db.GetLastGCSn() < 3 && time.Now().Before(deadline) {
		time.Sleep(time.Millisecond)
		db.GC()
	}
	if got := db.GetLastGCSn(); got < 3 {
		t.Fatalf("collector stalled: lastGCSn=%d, want 3", got)
	}
}
