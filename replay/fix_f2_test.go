package nitro

// Regression replay for F2 (commit bbdfb2f): a Visitor shard must stop at the first item whose KEY is not below
// the next pivot's key (key-only comparator). Comparing (key, bornSn) lets the previous shard deliver an older
// visible version of the pivot key, which the next shard (which seeks by key) delivers again.
//
// The tower heights of the skiplist are scripted through the writer's random source, so the range-split pivot
// is known: the only node of height 1 is the newer, invisible version b@sn3.
//
// History (one writer):
//   sn1: Put a, b, c (height 0)   -> snapshot s1 (the visited snapshot, kept open)
//   sn2: Delete b                 -> snapshot s2 (kept open)
//   sn3: Put b (height 1)         -> snapshot s3 (merges the level statistics)
//   Visitor(s1, shards=2, concurrency=1): pivot is b@sn3; expected visit: shard0=[a] shard1=[b c].

import (
	"fmt"
	"math/rand"
	"testing"
	"time"
)

// verifF2Source is a scripted rand.Source: each Int63 yields either 0 (Float32 == 0: grow the tower) or a
// value whose Float32 is 0.5 >= p (stop growing).
type verifF2Source struct {
	script []bool // true: grow
	pos    int
}

func (s *verifF2Source) Seed(int64) {}
func (s *verifF2Source) Int63() int64 {
	grow := false
	if s.pos < len(s.script) {
		grow = s.script[s.pos]
	}
	s.pos++
	if grow {
		return 0
	}
	return 1 << 62 // Float64 = Int63/2^63 = 0.5
}

func TestVerifReplayF2(t *testing.T) {
	db := New()
	w := db.NewWriter()
	src := &verifF2Source{}
	w.rand = rand.New(src)

	// sn1: a, b, c all of height 0 (script exhausted => never grow)
	w.Put([]byte("a"))
	w.Put([]byte("b"))
	w.Put([]byte("c"))
	s1, _ := db.NewSnapshot()
	if !w.Delete([]byte("b")) {
		t.Fatalf("setup: delete of b failed")
	}
	s2, _ := db.NewSnapshot()
	src.script = []bool{true, false} // next insert: height 1
	src.pos = 0
	nb := w.Put2([]byte("b"))
	s3, _ := db.NewSnapshot()
	if nb == nil || nb.Level() != 1 {
		t.Fatalf("setup: second version of b was not inserted with height 1 (node %v)", nb)
	}
	pivots := db.store.GetRangeSplitItems(2)
	if len(pivots) != 1 || pivots[0] != nb.Item() {
		t.Fatalf("setup: range split for 2 shards is not the single pivot b@sn3 (got %d pivots)", len(pivots))
	}

	type visit struct {
		shard int
		key   string
	}
	var visited []visit // concurrency 1: a single worker appends
	done := make(chan error, 1)
	go func() {
		done <- db.Visitor(s1, func(itm *Item, shard int) error {
			visited = append(visited, visit{shard, string(itm.Bytes())})
			return nil
		}, 2, 1)
	}()
	select {
	case err := <-done:
		if err != nil {
			t.Fatalf("Visitor returned error %v", err)
		}
	case <-time.After(5 * time.Second):
		t.Fatalf("Visitor did not return within 5s")
	}

	got := fmt.Sprint(visited)
	want := "[{0 a} {1 b} {1 c}]"
	if got != want {
		t.Fatalf("history [sn1 Put a,b,c; sn2 Delete b; sn3 Put b (pivot)], Visitor(snapshot 1, shards=2): "+
			"visited {shard key} = %s, want %s (every visible item exactly once)", got, want)
	}

	s1.Close()
	s2.Close()
	s3.Close()
	db.Close()
}
