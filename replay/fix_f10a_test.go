package nitro

// Regression replay for F10a (commit 92a2048): LoadFromDisk replaces the skiplist created with the instance by the
// assembled one. With user-managed memory the head and tail blocks of the replaced skiplist have to be returned to
// the allocator, otherwise every instance populated by LoadFromDisk leaks two blocks.
//
// Input: a backup of the items k0..k4 (written by StoreToDisk of an ordinary instance); a fresh instance with a
// counting malloc/free pair (on top of the repository's mm package) loads it, the returned snapshot is closed and
// the instance is closed. All five items must be loaded and #malloc must equal #free.

import (
	"fmt"
	"sync/atomic"
	"testing"
	"time"
	"unsafe"

	"github.com/couchbase/nitro/mm"
)

var verifF10aAllocs, verifF10aFrees int64

func verifF10aMalloc(l int) unsafe.Pointer {
	atomic.AddInt64(&verifF10aAllocs, 1)
	return mm.Malloc(l)
}

func verifF10aFree(p unsafe.Pointer) {
	atomic.AddInt64(&verifF10aFrees, 1)
	mm.Free(p)
}

func TestVerifReplayF10a(t *testing.T) {
	cfg := DefaultConfig()
	cfg.UseMemoryMgmt(verifF10aMalloc, verifF10aFree)
	if !cfg.useMemoryMgmt {
		t.Skip("user-managed memory is not supported on this architecture")
	}
	atomic.StoreInt64(&verifF10aAllocs, 0)
	atomic.StoreInt64(&verifF10aFrees, 0)
	dir := t.TempDir()

	type result struct {
		storeErr, loadErr error
		count             int64
		allocs, frees     int64
	}
	done := make(chan result, 1)
	go func() {
		var r result
		defer func() { done <- r }()

		// Backup written by an instance with Go-managed memory
		src := New()
		w := src.NewWriter()
		for i := 0; i < 5; i++ {
			w.Put([]byte(fmt.Sprintf("k%d", i)))
		}
		snap, _ := src.NewSnapshot()
		r.storeErr = src.StoreToDisk(dir, snap, 2, nil) // closes snap
		src.Close()
		if r.storeErr != nil {
			return
		}

		db := NewWithConfig(cfg)
		lsnap, err := db.LoadFromDisk(dir, 2, nil)
		r.loadErr = err
		if lsnap != nil {
			r.count = lsnap.Count()
			lsnap.Close()
		}
		db.Close()
		r.allocs, r.frees = atomic.LoadInt64(&verifF10aAllocs), atomic.LoadInt64(&verifF10aFrees)
	}()

	var r result
	select {
	case r = <-done:
	case <-time.After(10 * time.Second):
		t.Fatalf("StoreToDisk / LoadFromDisk / Close did not finish within 10s")
	}

	if r.storeErr != nil || r.loadErr != nil || r.count != 5 {
		t.Fatalf("setup: backup and restore of k0..k4 failed: store error %v, load error %v, %d items loaded",
			r.storeErr, r.loadErr, r.count)
	}
	if r.allocs != r.frees {
		t.Fatalf("fresh instance with user-managed memory, LoadFromDisk of a backup of k0..k4, snapshot closed, instance closed: "+
			"%d blocks allocated, %d freed, %d leaked (want 0)", r.allocs, r.frees, r.allocs-r.frees)
	}
}
