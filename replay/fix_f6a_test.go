package nitro

// Regression replay for F6a (commit f8b493d): a LoadFromDisk reader goroutine that hits a read error has to keep
// receiving from the unbuffered work channel. Returning on the first corrupt shard leaves the feeder blocked on
// the next shard forever.
//
// Input: backup directory with data/files.json = ["shard-0","shard-1","shard-2"]; every shard file is written
// with the package's own file writer (2 items + terminator) and shard-0 is then truncated in the middle of its
// first item body. LoadFromDisk(dir, concurrency=1) must return an error (and must return).

import (
	"encoding/json"
	"fmt"
	"io/ioutil"
	"os"
	"path/filepath"
	"testing"
	"time"
)

func TestVerifReplayF6a(t *testing.T) {
	dir := t.TempDir()
	datadir := filepath.Join(dir, "data")
	if err := os.MkdirAll(datadir, 0755); err != nil {
		t.Fatal(err)
	}

	src := New()
	defer src.Close()
	files := []string{"shard-0", "shard-1", "shard-2"}
	for i, f := range files {
		fw := src.newFileWriter(RawdbFile)
		if err := fw.Open(filepath.Join(datadir, f)); err != nil {
			t.Fatal(err)
		}
		for j := 0; j < 2; j++ {
			itm := src.newItem([]byte(fmt.Sprintf("key-%d-%d-0123456789", i, j)), false)
			if err := fw.WriteItem(itm); err != nil {
				t.Fatal(err)
			}
		}
		if err := fw.Close(); err != nil {
			t.Fatal(err)
		}
	}
	// 4 byte length header + 3 bytes of an 18 byte body
	if err := os.Truncate(filepath.Join(datadir, "shard-0"), 7); err != nil {
		t.Fatal(err)
	}
	bs, _ := json.Marshal(files)
	if err := ioutil.WriteFile(filepath.Join(datadir, "files.json"), bs, 0660); err != nil {
		t.Fatal(err)
	}
	bs, _ = json.Marshal(map[string]interface{}{"version": version})
	if err := ioutil.WriteFile(filepath.Join(dir, "nitro.json"), bs, 0660); err != nil {
		t.Fatal(err)
	}

	db := New()
	type result struct {
		snap *Snapshot
		err  error
	}
	done := make(chan result, 1)
	go func() {
		snap, err := db.LoadFromDisk(dir, 1, nil)
		done <- result{snap, err}
	}()

	select {
	case r := <-done:
		if r.err == nil {
			t.Fatalf("LoadFromDisk of a backup whose shard-0 is truncated to 7 bytes returned no error (snapshot %v)", r.snap)
		}
	case <-time.After(5 * time.Second):
		t.Fatalf("backup with files [shard-0 shard-1 shard-2], shard-0 truncated to 7 bytes (inside its first item): " +
			"LoadFromDisk(dir, concurrency=1) did not return within 5s (reader quit, feeder blocked on the work channel)")
	}
	db.Close()
}
