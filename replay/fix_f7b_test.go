package nitro

// Regression replay for F7b (commit 13bab95): StoreToDisk has to flush and close the shard files before it
// writes data/files.json and data/checksums.json, and has to report a failed flush. The writers used to be closed
// by a deferred function that dropped the results after the manifests had been written: a backup whose shard
// files never reached the disk was reported as successful.
//
// Input: database with items k0..k9; the backup directory has data/shard-<i> pre-created as symbolic links to
// /dev/full for every shard (StoreToDisk uses runtime.NumCPU() shards), so the buffered item writes succeed and
// the flush at close time fails with ENOSPC. StoreToDisk must return an error and must not write data/files.json.

import (
	"fmt"
	"os"
	"path/filepath"
	"runtime"
	"testing"
	"time"
)

func TestVerifReplayF7b(t *testing.T) {
	if fd, err := os.OpenFile("/dev/full", os.O_WRONLY, 0); err != nil {
		t.Skipf("/dev/full is not available: %v", err)
	} else {
		_, werr := fd.Write([]byte("x"))
		fd.Close()
		if werr == nil {
			t.Skip("/dev/full accepts writes on this system")
		}
	}

	dir := t.TempDir()
	datadir := filepath.Join(dir, "data")
	if err := os.MkdirAll(datadir, 0755); err != nil {
		t.Fatal(err)
	}
	for i := 0; i < runtime.NumCPU(); i++ {
		if err := os.Symlink("/dev/full", filepath.Join(datadir, fmt.Sprintf("shard-%d", i))); err != nil {
			t.Skipf("cannot create symbolic links: %v", err)
		}
	}

	db := New()
	w := db.NewWriter()
	for i := 0; i < 10; i++ {
		w.Put([]byte(fmt.Sprintf("k%d", i)))
	}
	snap, _ := db.NewSnapshot()

	done := make(chan error, 1)
	go func() {
		// StoreToDisk closes the snapshot
		done <- db.StoreToDisk(dir, snap, 2, nil)
	}()

	var err error
	select {
	case err = <-done:
	case <-time.After(5 * time.Second):
		t.Fatalf("StoreToDisk did not return within 5s")
	}

	_, statErr := os.Stat(filepath.Join(datadir, "files.json"))
	manifestWritten := statErr == nil
	if err == nil || manifestWritten {
		t.Fatalf("StoreToDisk of 10 items into a directory whose shard files all point to /dev/full: "+
			"returned error %v (want ENOSPC from flushing the shard files), data/files.json written: %v (want false)",
			err, manifestWritten)
	}
	db.Close()
}
