package nitro

// Regression replay for F6b/c (commit f0cd0c4): LoadFromDisk has to report manifest files it cannot decode, and a
// checksums.json whose length differs from files.json, instead of ignoring the json errors. Ignoring them gave an
// empty database with a nil error (truncated files.json) or an index-out-of-range panic (short / garbage
// checksums.json).
//
// A valid backup with two shard files (written with the package's file writer) is created, then one manifest is
// damaged per case:
//   1. data/files.json     = `["shard-0","sha`      (truncated)        -> error expected
//   2. data/checksums.json = `[0]`                  (1 entry, 2 files) -> error expected, no panic
//   3. data/checksums.json = `[12,`                 (truncated)        -> error expected, no panic
// The undamaged backup must load with both items.

import (
	"encoding/json"
	"fmt"
	"io/ioutil"
	"os"
	"path/filepath"
	"testing"
	"time"
)

func TestVerifReplayF6bc(t *testing.T) {
	src := New()
	defer src.Close()

	// mkBackup writes a valid backup and returns its directory
	mkBackup := func() string {
		dir := t.TempDir()
		datadir := filepath.Join(dir, "data")
		if err := os.MkdirAll(datadir, 0755); err != nil {
			t.Fatal(err)
		}
		files := []string{"shard-0", "shard-1"}
		checksums := make([]uint32, len(files))
		for i, f := range files {
			fw := src.newFileWriter(RawdbFile)
			if err := fw.Open(filepath.Join(datadir, f)); err != nil {
				t.Fatal(err)
			}
			if err := fw.WriteItem(src.newItem([]byte(fmt.Sprintf("key-%d", i)), false)); err != nil {
				t.Fatal(err)
			}
			checksums[i] = fw.Checksum()
			if err := fw.Close(); err != nil {
				t.Fatal(err)
			}
		}
		bs, _ := json.Marshal(files)
		ioutil.WriteFile(filepath.Join(datadir, "files.json"), bs, 0660)
		bs, _ = json.Marshal(checksums)
		ioutil.WriteFile(filepath.Join(datadir, "checksums.json"), bs, 0660)
		bs, _ = json.Marshal(map[string]interface{}{"version": version})
		ioutil.WriteFile(filepath.Join(dir, "nitro.json"), bs, 0660)
		return dir
	}

	// load runs LoadFromDisk guarded against panics and hangs
	load := func(dir string) (count int64, err error, panicked interface{}, timedOut bool) {
		type result struct {
			count    int64
			err      error
			panicked interface{}
		}
		done := make(chan result, 1)
		go func() {
			var r result
			defer func() {
				r.panicked = recover()
				done <- r
			}()
			db := New()
			snap, err := db.LoadFromDisk(dir, 2, nil)
			r.err = err
			if snap != nil {
				r.count = snap.Count()
				snap.Close()
			}
			db.Close()
		}()
		select {
		case r := <-done:
			return r.count, r.err, r.panicked, false
		case <-time.After(5 * time.Second):
			return 0, nil, nil, true
		}
	}

	// Sanity: the undamaged backup loads
	if count, err, p, to := load(mkBackup()); err != nil || p != nil || to || count != 2 {
		t.Fatalf("setup: undamaged backup: count=%d err=%v panic=%v timeout=%v, want 2 items and no error", count, err, p, to)
	}

	cases := []struct {
		file, content, what string
	}{
		{"files.json", `["shard-0","sha`, "truncated data/files.json"},
		{"checksums.json", `[0]`, "data/checksums.json with 1 entry for 2 files"},
		{"checksums.json", `[12,`, "truncated data/checksums.json"},
	}
	for _, c := range cases {
		dir := mkBackup()
		if err := ioutil.WriteFile(filepath.Join(dir, "data", c.file), []byte(c.content), 0660); err != nil {
			t.Fatal(err)
		}
		count, err, p, to := load(dir)
		switch {
		case to:
			t.Errorf("%s (content %q): LoadFromDisk did not return within 5s", c.what, c.content)
		case p != nil:
			t.Errorf("%s (content %q): LoadFromDisk panicked: %v", c.what, c.content, p)
		case err == nil:
			t.Errorf("%s (content %q): LoadFromDisk returned a snapshot with %d items and a nil error, want an error",
				c.what, c.content, count)
		}
	}
	if t.Failed() {
		t.FailNow()
	}
}
