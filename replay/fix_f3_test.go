package nitro

// Regression replay for F3 (commit 37ce7bc): the Visitor work channel has to hold one slot per range partition.
// The number of partitions follows from the pivots actually found and can exceed the requested shard count:
// with shards=1 GetRangeSplitItems never reaches its quota (nways-1 == 0) and returns every node of the top level
// when the merged level statistics are behind (items inserted since the last snapshot). With a channel sized by
// `shards`, the feeder blocks forever once the only worker has returned on a callback error.
//
// Tower heights are scripted through the writer's random source.
//
// History (one writer):
//   sn1: Put a, z (height 0)        -> snapshot s1 (visited)
//   sn2: Put b, c, d (height 1)     (no snapshot: level statistics not merged yet)
//   Visitor(s1, callback failing on the first item, shards=1, concurrency=1)
//     pivots b@sn2 and d@sn2 => 3 partitions; must return the callback error, must not hang.

import (
	"errors"
	"math/rand"
	"testing"
	"time"
)

// verifF3Source is a scripted rand.Source: Int63 == 0 makes Float32 0 (grow the tower), 1<<62 makes it 0.5 (stop).
type verifF3Source struct {
	script []bool // true: grow
	pos    int
}

func (s *verifF3Source) Seed(int64) {}
func (s *verifF3Source) Int63() int64 {
	grow := false
	if s.pos < len(s.script) {
		grow = s.script[s.pos]
	}
	s.pos++
	if grow {
		return 0
	}
	return 1 << 62
}

func TestVerifReplayF3(t *testing.T) {
	db := New()
	w := db.NewWriter()
	src := &verifF3Source{}
	w.rand = rand.New(src)

	w.Put([]byte("a"))
	w.Put([]byte("z"))
	s1, _ := db.NewSnapshot()

	src.script = []bool{true, false, true, false, true, false} // three inserts of height 1
	src.pos = 0
	for _, k := range []string{"b", "c", "d"} {
		n := w.Put2([]byte(k))
		if n == nil || n.Level() != 1 {
			t.Fatalf("setup: %s was not inserted with height 1", k)
		}
	}
	if pivots := db.store.GetRangeSplitItems(1); len(pivots) != 2 {
		t.Fatalf("setup: range split for 1 shard returned %d pivots, expected the 2 pivots b, d", len(pivots))
	}

	errStop := errors.New("stop at first item")
	calls := 0
	done := make(chan error, 1)
	go func() {
		done <- db.Visitor(s1, func(itm *Item, shard int) error {
			calls++
			return errStop
		}, 1, 1)
	}()

	select {
	case err := <-done:
		if err != errStop {
			t.Fatalf("Visitor(snapshot 1, shards=1, concurrency=1) returned %v, want the callback error %q", err, errStop)
		}
		if calls != 1 {
			t.Fatalf("callback ran %d times, want 1", calls)
		}
	case <-time.After(5 * time.Second):
		// The Visitor goroutine is stuck: do not close the database (it would wait for the leaked iterator)
		t.Fatalf("history [sn1 Put a,z; snapshot 1; sn2 Put b,c,d as top-level nodes], " +
			"Visitor(snapshot 1, callback failing on first item, shards=1, concurrency=1): 3 partitions for 1 shard, " +
			"Visitor did not return within 5s (feeder blocked on the work channel)")
	}

	s1.Close()
	db.Close()
}
