package skiplist

// Regression replay for F9 (commit ae4db12): MergeIterator.SeekFirst and Seek must discard the heap entries of a
// previous positioning. They used to append one entry per input on top of what the heap still held, so after
// repositioning in the middle of a scan items were returned twice and a stale exhausted cursor was advanced past
// the tail (nil dereference).
//
// Input: two skiplists L0 = {00, 02, 04}, L1 = {01, 03, 05} merged.
//   1. SeekFirst, Next, Next (mid scan), SeekFirst again, full scan: want [00 01 02 03 04 05]
//   2. SeekFirst, Next (mid scan), Seek(03), scan to the end:        want [03 04 05]

import (
	"fmt"
	"testing"
	"time"
)

func TestVerifReplayF9(t *testing.T) {
	cmp := CompareBytes
	lists := []*Skiplist{New(), New()}
	for i := 0; i < 6; i++ {
		s := lists[i%2]
		buf := s.MakeBuf()
		s.Insert(NewByteKeyItem([]byte(fmt.Sprintf("%02d", i))), cmp, buf, &s.Stats)
		s.FreeBuf(buf)
	}
	newMerger := func() *MergeIterator {
		var iters []*Iterator
		for _, s := range lists {
			iters = append(iters, s.NewIterator(cmp, s.MakeBuf()))
		}
		return NewMergeIterator(iters)
	}
	scan := func(mit *MergeIterator, out *[]string) {
		for ; mit.Valid() && len(*out) < 50; mit.Next() {
			*out = append(*out, string(*((*byteKeyItem)(mit.Get()))))
		}
	}

	type result struct {
		scan1, scan2 []string
		found        bool
		panicked     interface{}
	}
	done := make(chan result, 1)
	go func() {
		var r result
		defer func() {
			r.panicked = recover()
			done <- r
		}()
		mit := newMerger()
		mit.SeekFirst()
		mit.Next()
		mit.Next()
		mit.SeekFirst()
		scan(mit, &r.scan1)

		mit = newMerger()
		mit.SeekFirst()
		mit.Next()
		r.found = mit.Seek(NewByteKeyItem([]byte("03")))
		scan(mit, &r.scan2)
	}()

	var r result
	select {
	case r = <-done:
	case <-time.After(5 * time.Second):
		t.Fatalf("merge iterator scans did not finish within 5s")
	}

	if r.panicked != nil {
		t.Fatalf("merge of {00,02,04} and {01,03,05}: repositioning in the middle of a scan panicked: %v "+
			"(scan after the second SeekFirst so far: %v, scan after Seek(03) so far: %v)", r.panicked, r.scan1, r.scan2)
	}
	if got := fmt.Sprint(r.scan1); got != "[00 01 02 03 04 05]" {
		t.Fatalf("merge of {00,02,04} and {01,03,05}: SeekFirst, Next, Next, SeekFirst, scan returned %s, want [00 01 02 03 04 05]", got)
	}
	if got := fmt.Sprint(r.scan2); !r.found || got != "[03 04 05]" {
		t.Fatalf("merge of {00,02,04} and {01,03,05}: SeekFirst, Next, Seek(03) (found=%v), scan returned %s, want found and [03 04 05]",
			r.found, got)
	}
}
