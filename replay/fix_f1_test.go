package nitro

// Regression replay for F1 (commit 442f684): Iterator.Refresh re-seeks with the key-only comparator and
// therefore lands on the oldest physical version of the current key. It has to re-apply the snapshot
// visibility filter (skipUnwanted), otherwise the iterator surfaces a version that is dead in its snapshot.
//
// History (one writer, key comparator CompareKV so that two versions of a key carry different values):
//   sn1: Put k=v1          -> snapshot s1 (kept open, pins k=v1 physically)
//   sn2: Delete k          -> snapshot s2 (kept open)
//   sn3: Put k=v2, Put m=x -> snapshot s3
//   iterate s3: SeekFirst -> k=v2 ; Refresh ; Get must still be k=v2, and the full scan must be [k=v2, m=x].

import (
	"fmt"
	"testing"
	"time"
)

func TestVerifReplayF1(t *testing.T) {
	cfg := DefaultConfig()
	cfg.SetKeyComparator(CompareKV)
	db := NewWithConfig(cfg)
	w := db.NewWriter()

	w.Put(KVToBytes([]byte("k"), []byte("v1")))
	s1, _ := db.NewSnapshot()
	if !w.Delete(KVToBytes([]byte("k"), nil)) {
		t.Fatalf("setup: delete of k failed")
	}
	s2, _ := db.NewSnapshot()
	w.Put(KVToBytes([]byte("k"), []byte("v2")))
	w.Put(KVToBytes([]byte("m"), []byte("x")))
	s3, _ := db.NewSnapshot()

	type result struct {
		afterRefresh string
		scan         []string
	}
	done := make(chan result, 1)
	go func() {
		var r result
		show := func(bs []byte) string {
			k, v := KVFromBytes(bs)
			return fmt.Sprintf("%s=%s", k, v)
		}
		it := db.NewIterator(s3)
		defer it.Close()
		it.SeekFirst()
		if !it.Valid() {
			done <- r
			return
		}
		r.scan = append(r.scan, show(it.Get()))
		it.Refresh()
		if it.Valid() {
			r.afterRefresh = show(it.Get())
		}
		for it.Next(); it.Valid() && len(r.scan) < 10; it.Next() {
			r.scan = append(r.scan, show(it.Get()))
		}
		done <- r
	}()

	var r result
	select {
	case r = <-done:
	case <-time.After(5 * time.Second):
		t.Fatalf("iteration over snapshot 3 did not finish within 5s")
	}

	if r.afterRefresh != "k=v2" {
		t.Fatalf("history [sn1 Put k=v1; sn2 Delete k; sn3 Put k=v2, Put m=x], iterator on snapshot 3: "+
			"after SeekFirst+Refresh the iterator shows %q, want \"k=v2\" (k=v1 died at sn2 and is invisible in snapshot 3)",
			r.afterRefresh)
	}
	if fmt.Sprint(r.scan) != "[k=v2 m=x]" {
		t.Fatalf("scan of snapshot 3 with a Refresh after the first item returned %v, want [k=v2 m=x]", r.scan)
	}

	s1.Close()
	s2.Close()
	s3.Close()
	db.Close()
}
