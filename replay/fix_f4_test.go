package nitro

// Regression replay for F4 (commit 1ccaa6c): Writer.DeleteNode may reset the node's garbage link only when it
// won the delete. A second DeleteNode on an already deleted node used to clear the link, cutting the writer's
// garbage list behind that node: the rest of the list is never handed to the collector and stays in the skiplist
// forever.
//
// History (one writer, hence one collector worker which processes garbage lists in FIFO order):
//   sn1: Put a, b, c, d                                          -> snapshot s1
//   sn2: DeleteNode(a), DeleteNode(b), DeleteNode(c)  (garbage list a -> b -> c)
//        DeleteNode(a) again  (must return false and must not touch the list)
//                                                                -> snapshot s2
//   sn3: DeleteNode(d)                                           -> snapshot s3
//   close s1, s2, s3; wait until d (the last garbage list) is physically unlinked;
//   then a, b, c must be physically unlinked too: the store must be empty.

import (
	"fmt"
	"testing"
	"time"
)

func TestVerifReplayF4(t *testing.T) {
	db := New()
	w := db.NewWriter()

	for _, k := range []string{"a", "b", "c", "d"} {
		w.Put([]byte(k))
	}
	s1, _ := db.NewSnapshot()

	na, nb, nc := w.GetNode([]byte("a")), w.GetNode([]byte("b")), w.GetNode([]byte("c"))
	if na == nil || nb == nil || nc == nil {
		t.Fatalf("setup: lookup of a, b, c failed")
	}
	if !w.DeleteNode(na) || !w.DeleteNode(nb) || !w.DeleteNode(nc) {
		t.Fatalf("setup: first delete of a, b, c must succeed")
	}
	if w.DeleteNode(na) {
		t.Fatalf("second DeleteNode(a) reported success")
	}
	s2, _ := db.NewSnapshot()

	nd := w.GetNode([]byte("d"))
	if nd == nil || !w.DeleteNode(nd) {
		t.Fatalf("setup: delete of d failed")
	}
	s3, _ := db.NewSnapshot()

	// What snapshot 2 hands to the collector
	var handed []string
	for n := s2.gclist; n != nil && len(handed) < 10; n = n.GetLink() {
		handed = append(handed, string((*Item)(n.Item()).Bytes()))
	}

	s1.Close()
	s2.Close()
	s3.Close()

	physical := func() []string {
		var keys []string
		buf := db.store.MakeBuf()
		defer db.store.FreeBuf(buf)
		it := db.store.NewIterator(db.iterCmp, buf)
		defer it.Close()
		for it.SeekFirst(); it.Valid(); it.Next() {
			itm := (*Item)(it.Get())
			keys = append(keys, fmt.Sprintf("%s(born %d, dead %d)", itm.Bytes(), itm.bornSn, itm.deadSn))
		}
		return keys
	}
	contains := func(keys []string, prefix string) bool {
		for _, k := range keys {
			if len(k) >= len(prefix) && k[:len(prefix)] == prefix {
				return true
			}
		}
		return false
	}

	// Garbage lists are collected in order by the single worker: once d is gone, the list of snapshot 2 is done.
	deadline := time.Now().Add(5 * time.Second)
	for contains(physical(), "d(") {
		if time.Now().After(deadline) {
			t.Fatalf("collector did not unlink d within 5s (lastGCSn=%d); store: %v", db.GetLastGCSn(), physical())
		}
		time.Sleep(time.Millisecond)
	}

	if left := physical(); len(left) != 0 || fmt.Sprint(handed) != "[a b c]" {
		t.Fatalf("history [sn1 Put a,b,c,d; sn2 DeleteNode a,b,c then DeleteNode(a) again; sn3 DeleteNode d; all snapshots closed]: "+
			"garbage list of snapshot 2 = %v (want [a b c]); after collection the store still holds %v (want empty)",
			handed, left)
	}

	db.Close()
}
