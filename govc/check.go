package main

func cmdCheck(args []string) int { return 2 }
func cmdClaim(args []string) int { return 2 }
