package main

// "govc check -property Cxx": the registered check. Generates the obligations of every function (and lemma)
// tagged with the property from /repo's current tree, discharges them, compares with the claimed list in
// /verif/obligations/<id>.expected, replays refutations where a replay harness is registered and writes evidence.

import (
	"bufio"
	"context"
	"encoding/json"
	"flag"
	"fmt"
	"os"
	"os/exec"
	"path/filepath"
	"regexp"
	"sort"
	"strings"
	"time"
)

type knownFinding struct {
	Property   string `json:"property"`
	Obligation string `json:"obligation"`
	Status     string `json:"status"` // open | fixed
	Commit     string `json:"commit,omitempty"`
	What       string `json:"what"`
	Witness    string `json:"witness,omitempty"`
}

type replayEntry struct {
	Pattern string `json:"obligation"` // regexp on the obligation name
	Pkg     string `json:"pkg"`        // package directory relative to /repo ("." , "skiplist", ...)
	File    string `json:"file"`       // test file under /verif/replay
	Run     string `json:"run"`        // test name
	What    string `json:"what"`
}

func readExpected(id string) ([]string, error) {
	f, err := os.Open(filepath.Join(verifDir, "obligations", id+".expected"))
	if err != nil {
		return nil, err
	}
	defer f.Close()
	var out []string
	sc := bufio.NewScanner(f)
	for sc.Scan() {
		l := strings.TrimSpace(sc.Text())
		if l != "" && !strings.HasPrefix(l, "#") {
			out = append(out, l)
		}
	}
	return out, nil
}

func propFuncs(db *ContractDB, id string) (funcs, lemmas []string) {
	for _, n := range db.Order {
		for _, p := range db.Funcs[n].Props {
			if p == id {
				funcs = append(funcs, n)
			}
		}
	}
	for _, n := range sortedKeys(db.Axioms) {
		ax := db.Axioms[n]
		if !ax.IsLemma {
			continue
		}
		for _, p := range ax.Props {
			if p == id {
				lemmas = append(lemmas, n)
			}
		}
	}
	return
}

func sanitize(s string) string {
	return regexp.MustCompile(`[^A-Za-z0-9_.\-]+`).ReplaceAllString(s, "_")
}

type violation struct {
	Obligation string `json:"obligation"`
	Reason     string `json:"reason"` // refuted | undecided | obligation-missing | vacuous-contract | contract-error
	Detail     string `json:"detail"`
	SMTFile    string `json:"smt_file,omitempty"`
	Solver     string `json:"solver_output,omitempty"`
	Replayed   bool   `json:"replayed_on_real_code"`
	ReplayCmd  string `json:"replay_cmd,omitempty"`
	ReplayOut  string `json:"replay_output,omitempty"`
	ReplayFile string `json:"-"`
}

func cmdCheck(args []string) int {
	fs := flag.NewFlagSet("check", flag.ExitOnError)
	id := fs.String("property", "", "property id")
	tier := fs.String("tier", "", "quick|thorough")
	fs.Parse(args)
	if *tier == "" {
		*tier = os.Getenv("VERIF_TIER")
	}
	if *tier == "" {
		*tier = "quick"
	}
	seed := atoiDef(os.Getenv("VERIF_SEED"), 0)
	code, _ := runCheck(*id, *tier, seed, true)
	return code
}

func runCheck(id, tier string, seed int, writeEvidence bool) (int, []violation) {
	t0 := time.Now()
	timeout := 10
	if tier == "thorough" {
		timeout = 60
	}
	outDir := filepath.Join(verifDir, "replays_out", id)
	os.RemoveAll(outDir)
	os.MkdirAll(outDir, 0o755)
	work, _ := os.MkdirTemp("", "govc-"+id+"-")
	defer os.RemoveAll(work)

	var viols []violation
	P, db, err := loadAll()
	var rr *runResult
	expected, eerr := readExpected(id)
	if eerr != nil {
		fmt.Fprintln(os.Stderr, "no claimed obligation list:", eerr)
		return 2, nil
	}
	var funcs, lemmas []string
	if err != nil {
		if P == nil {
			// the tree does not load: nothing can be verified
			fmt.Fprintln(os.Stderr, "engine: cannot load /repo:", err)
			return 2, nil
		}
		// contract files no longer parse
		viols = append(viols, violation{Obligation: "*", Reason: "contract-error", Detail: err.Error()})
		rr = &runResult{aggs: map[string]*aggObl{}}
	} else {
		funcs, lemmas = propFuncs(db, id)
		if tier != "thorough" {
			// quick tier: unclaimed obligations are generated (and listed) but not solved
			onlyNames = map[string]bool{}
			for _, e := range expected {
				onlyNames[e] = true
			}
		}
		if tier == "thorough" {
			// pass 1: every obligation, claimed or not, with twice the quick time limit (the unclaimed ones are
			// listed with their verdicts in the evidence file)
			rr = verifyFuncs(P, db, funcs, lemmas, work, 20, seed)
		} else {
			rr = verifyFuncs(P, db, funcs, lemmas, work, timeout, seed)
		}
		onlyNames = nil
		if tier == "thorough" {
			// pass 2: the claimed obligations again under a second seed and six times the quick time limit:
			// their verdicts must not depend on the seed
			onlyNames = map[string]bool{}
			for _, e := range expected {
				onlyNames[e] = true
			}
			rr2 := verifyFuncs(P, db, funcs, lemmas, filepath.Join(work, "s2"), timeout, seed+1)
			onlyNames = nil
			claimedSet := map[string]bool{}
			for _, e := range expected {
				claimedSet[e] = true
			}
			for n, a := range rr2.aggs {
				if !claimedSet[n] {
					continue
				}
				if b, ok := rr.aggs[n]; ok && (a.Result == "discharged") != (b.Result == "discharged") && b.Result == "discharged" {
					rr.aggs[n] = a
				}
			}
			rr.solverMs += rr2.solverMs
		}
	}
	claimed := map[string]bool{}
	for _, e := range expected {
		claimed[e] = true
	}
	discharged := 0
	for _, e := range expected {
		a := rr.aggs[e]
		switch {
		case a == nil:
			detail := "claimed obligation is no longer generated (function, loop or clause removed/renamed, or its contract no longer type-checks)"
			for _, er := range rr.errs {
				fn := strings.SplitN(e, "#", 2)[0]
				if strings.Contains(er, fn) {
					detail += "; " + er
				}
			}
			viols = append(viols, violation{Obligation: e, Reason: "obligation-missing", Detail: detail})
		case a.Result == "discharged" || a.Result == "cover-ok" || a.Result == "cover-unknown":
			discharged++
		case a.Result == "vacuous":
			viols = append(viols, violation{Obligation: e, Reason: "vacuous-contract", Detail: "the precondition of the function is unsatisfiable", SMTFile: a.Bad.File})
		case a.Result == "refuted":
			v := violation{Obligation: e, Reason: "refuted", Detail: a.Bad.Info, SMTFile: a.Bad.File}
			v.Solver = modelFor(rr.g, a.Bad, work, timeout)
			viols = append(viols, v)
		default:
			// undecided is not refuted: retry the undecided instances with other seeds and a longer limit before
			// reporting (solver incompleteness must not raise an alarm on a tree where the obligation holds)
			if retryUndecided(rr, e, timeout, seed) {
				discharged++
				break
			}
			v := violation{Obligation: e, Reason: "undecided", Detail: a.Bad.Info + " (solvers: " + strings.SplitN(a.Bad.Model, "\n", 2)[0] + ")", SMTFile: a.Bad.File}
			viols = append(viols, v)
		}
	}
	// contract errors in functions of this property that produced no claimed-obligation failure yet
	for _, er := range rr.errs {
		covered := false
		for _, v := range viols {
			if strings.Contains(v.Detail, er) {
				covered = true
			}
		}
		if !covered {
			viols = append(viols, violation{Obligation: "contract", Reason: "contract-error", Detail: er})
		}
	}
	// known findings
	var kfs []knownFinding
	if b, err := os.ReadFile(filepath.Join(verifDir, "known-findings.json")); err == nil {
		json.Unmarshal(b, &kfs)
	}
	var real []violation
	nKnown := 0
	var knownList []string
	for _, v := range viols {
		known := false
		for _, k := range kfs {
			if k.Status == "open" && k.Property == id && k.Obligation == v.Obligation && v.Reason != "obligation-missing" {
				fmt.Printf("KNOWN-FINDING: property=%s %s (%s)\n", id, k.What, k.Obligation)
				known = true
				nKnown++
				knownList = append(knownList, k.Obligation+": "+k.What)
			}
		}
		if !known {
			real = append(real, v)
		}
	}
	// replay and report
	replays := loadReplayIndex()
	type rres struct {
		out, cmd string
		failed   bool
	}
	rcache := map[string]rres{}
	for i := range real {
		v := &real[i]
		// every indexed replay test whose pattern matches is tried (in index order) until one fails on the real
		// code; at most maxReplayRuns distinct tests are executed per check run
		for _, re := range replays {
			if ok, _ := regexp.MatchString(re.Pattern, v.Obligation); ok {
				key := re.File + "/" + re.Run
				r, done := rcache[key]
				if !done {
					if len(rcache) >= maxReplayRuns || os.Getenv("GOVC_NO_REPLAY") != "" {
						continue // (GOVC_NO_REPLAY: regression runs of the seed corpus skip the replay tests)
					}
					out, failed, cmd := runReplay(re)
					r = rres{out, cmd, failed}
					rcache[key] = r
				}
				if v.ReplayCmd == "" || r.failed {
					v.ReplayCmd, v.ReplayOut, v.Replayed = r.cmd, r.out, r.failed
				}
				if r.failed {
					break
				}
			}
		}
		rf := filepath.Join(outDir, sanitize(v.Obligation)+".json")
		if v.SMTFile != "" {
			dst := filepath.Join(outDir, sanitize(v.Obligation)+".smt2")
			if b, err := os.ReadFile(v.SMTFile); err == nil {
				os.WriteFile(dst, b, 0o644)
				v.SMTFile = dst
			}
		}
		writeJSON(rf, map[string]interface{}{"property": id, "violation": v})
		v.ReplayFile = rf
		suffix := ""
		if !v.Replayed {
			suffix = " no-failing-input-found"
		}
		fmt.Printf("VIOLATION property=%s replay=%s obligation=%s reason=%s%s\n", id, rf, v.Obligation, v.Reason, suffix)
	}
	if writeEvidence && os.Getenv("GOVC_NO_EVIDENCE") == "" {
		writeEvidenceFile(id, tier, seed, rr, expected, claimed, discharged, len(real), time.Since(t0).Seconds(), funcs, nKnown, knownList)
	}
	fmt.Printf("property=%s tier=%s functions=%d claimed=%d discharged=%d violations=%d wall=%.1fs\n", id, tier, len(funcs), len(expected), discharged, len(real), time.Since(t0).Seconds())
	if len(real) > 0 {
		return 1, real
	}
	return 0, nil
}

const maxReplayRuns = 8

func loadReplayIndex() []replayEntry {
	var out []replayEntry
	if b, err := os.ReadFile(filepath.Join(verifDir, "replay", "index.json")); err == nil {
		json.Unmarshal(b, &out)
	}
	return out
}

// runReplay injects a test file into the package with -overlay and runs it; the test fails iff the defect manifests.
func runReplay(re replayEntry) (string, bool, string) {
	tmp, _ := os.MkdirTemp("", "govc-replay-")
	defer os.RemoveAll(tmp)
	pkgDir := filepath.Join(repoDir(), re.Pkg)
	target := filepath.Join(pkgDir, "zz_verif_replay_test.go")
	ov := map[string]map[string]string{"Replace": {target: filepath.Join(verifDir, "replay", re.File)}}
	ovf := filepath.Join(tmp, "ov.json")
	b, _ := json.Marshal(ov)
	os.WriteFile(ovf, b, 0o644)
	args := []string{"test", "-tags", "verif", "-overlay", ovf, "-vet=off", "-count=1", "-timeout", "120s", "-run", "^" + re.Run + "$", "."}
	cmd := exec.Command("go", args...)
	cmd.Dir = pkgDir
	cmd.Env = append(os.Environ(), "GOFLAGS=-mod=mod", "GOPROXY=off", "GOSUMDB=off", "GOTOOLCHAIN=local", "GOCACHE="+filepath.Join(verifDir, "work", "gocache"))
	out, err := cmd.CombinedOutput()
	s := string(out)
	if len(s) > 6000 {
		s = s[:3000] + "\n...\n" + s[len(s)-3000:]
	}
	failed := err != nil && strings.Contains(s, "FAIL")
	return s, failed, "cd " + pkgDir + " && go " + strings.Join(args, " ")
}

func writeEvidenceFile(id, tier string, seed int, rr *runResult, expected []string, claimed map[string]bool, discharged, nviol int, wall float64, funcs []string, nKnown int, knownList []string) {
	type oblOut struct {
		Name      string `json:"name"`
		Result    string `json:"result"`
		Backend   string `json:"backend,omitempty"`
		Ms        int64  `json:"solver_ms"`
		Instances int    `json:"path_instances"`
	}
	var obls []oblOut
	var unclaimed []oblOut
	backends := map[string]int{}
	for _, n := range sortedKeys(rr.aggs) {
		a := rr.aggs[n]
		o := oblOut{a.Name, a.Result, a.Backend, a.Ms, a.Instances}
		if claimed[n] {
			obls = append(obls, o)
			for _, b := range strings.Split(a.Backend, ",") {
				if b != "" {
					backends[b]++
				}
			}
		} else {
			unclaimed = append(unclaimed, o)
		}
	}
	var samples []map[string]interface{}
	for _, o := range rr.allObls {
		if claimed[o.Name] && !o.Cover && len(samples) < 3 {
			goal := o.Goal
			if len(goal) > 400 {
				goal = goal[:400] + "..."
			}
			samples = append(samples, map[string]interface{}{"obligation": o.Name, "clause": o.Info, "path": o.Path, "assumptions": len(o.PC), "negated_goal_smt": goal, "result": o.Result, "solver": o.Solver, "ms": o.Ms})
		}
	}
	trusted := []string{"govc VC generator (go/ssa -> SMT-LIB) and the SMT solvers z3 4.8.12, z3 5.1.0, cvc5 1.0"}
	for _, t := range rr.trusted {
		trusted = append(trusted, "trusted contract: "+t)
	}
	assumptions := append([]string{}, rr.notes...)
	assumptions = append(assumptions,
		"go/ssa (x/tools v0.29.0) and go/types are the semantics of Go; amd64 layout; skiplist/node.go (non-amd64) is not compiled and not verified",
		"sync/atomic operations are sequentially consistent single steps; functions are verified sequentially (no interference) unless stated otherwise",
		"signed 64-bit arithmetic is mathematical (no overflow check); all other integer arithmetic wraps as in Go",
		"fresh allocations lie above an allocation watermark (never overlap earlier blocks)")
	level := "proof"
	cov := map[string]interface{}{
		"obligations":              len(expected) - nKnown, // obligations of open known findings are reported separately
		"discharged":               discharged,
		"known_findings":           knownList,
		"checker_cmd":              fmt.Sprintf("/verif/bin/govc check -property %s -tier %s", id, tier),
		"trusted_base":             trusted,
		"functions_under_contract": funcs,
		"paths":                    rr.paths,
		"per_obligation":           obls,
		"unclaimed_obligations":    unclaimed,
		"backends":                 backends,
		"solver_wall_ms":           rr.solverMs,
		"samples":                  samples,
		"path_cap_exceeded":        rr.truncated,
	}
	ev := map[string]interface{}{
		"property_id": id, "tier": tier, "seed": seed, "level": level, "coverage": cov,
		"assumptions": assumptions, "wall_s": wall, "violations": nviol,
	}
	if ov, err := os.ReadFile(filepath.Join(verifDir, "obligations", id+".level")); err == nil {
		l := strings.TrimSpace(string(ov))
		if l != "" {
			ev["level"] = l
			if l == "other" {
				cov["explanation"] = "named per-function obligations discharged by SMT for all inputs; the property as a whole is only partly decided (see MANIFEST level_note)"
			}
		}
	}
	sort.Strings(assumptions)
	writeJSON(filepath.Join(verifDir, "evidence", id+".json"), ev)
}

// cmdClaim writes /verif/obligations/<id>.expected from the obligations that discharge now.
func cmdClaim(args []string) int {
	fs := flag.NewFlagSet("claim", flag.ExitOnError)
	id := fs.String("property", "", "property id")
	fs.Parse(args)
	P, db, err := loadAll()
	if err != nil {
		fmt.Fprintln(os.Stderr, err)
		return 2
	}
	funcs, lemmas := propFuncs(db, *id)
	work, _ := os.MkdirTemp("", "govc-claim-")
	defer os.RemoveAll(work)
	// claim only what discharges quickly (< 40% of the quick timeout, CPU time) under two seeds
	rr1 := verifyFuncs(P, db, funcs, lemmas, filepath.Join(work, "a"), 10, 1)
	rr2 := verifyFuncs(P, db, funcs, lemmas, filepath.Join(work, "b"), 10, 2)
	for _, e := range rr1.errs {
		fmt.Println("ERROR:", e)
	}
	var names []string
	skipped := 0
	for _, n := range sortedKeys(rr1.aggs) {
		a, b := rr1.aggs[n], rr2.aggs[n]
		ok := func(x *aggObl) bool {
			if x != nil && (x.Result == "cover-ok" || x.Result == "cover-unknown") {
				return true // covers only alarm when the precondition becomes unsatisfiable
			}
			return x != nil && x.Result == "discharged" && x.Ms/int64(max(1, x.Instances-x.Trivial)) < 4000
		}
		if ok(a) && ok(b) {
			names = append(names, n)
		} else {
			skipped++
			fmt.Printf("not claimed: %s (%s/%s)\n", n, a.Result, func() string {
				if b == nil {
					return "missing"
				}
				return b.Result
			}())
		}
	}
	// obligations of open known findings stay claimed (the check reports them as KNOWN-FINDING, not as violations)
	var kfs []knownFinding
	if b, err := os.ReadFile(filepath.Join(verifDir, "known-findings.json")); err == nil {
		json.Unmarshal(b, &kfs)
	}
	for _, k := range kfs {
		if k.Property == *id && k.Status == "open" {
			if _, ok := rr1.aggs[k.Obligation]; ok {
				dup := false
				for _, n := range names {
					dup = dup || n == k.Obligation
				}
				if !dup {
					names = append(names, k.Obligation)
					fmt.Println("claimed as known finding:", k.Obligation)
				}
			} else {
				fmt.Println("WARNING: known finding obligation is not generated:", k.Obligation)
			}
		}
	}
	sort.Strings(names)
	os.MkdirAll(filepath.Join(verifDir, "obligations"), 0o755)
	os.WriteFile(filepath.Join(verifDir, "obligations", *id+".expected"), []byte(strings.Join(names, "\n")+"\n"), 0o644)
	fmt.Printf("claimed %d obligations for %s (%d not claimed)\n", len(names), *id, skipped)
	return 0
}

// retryUndecided re-runs the undecided instances of obligation name with two more seeds and three times the
// time limit. Returns true if every instance is now discharged (updates the aggregate).
func retryUndecided(rr *runResult, name string, timeoutS, seed int) bool {
	var insts []*Obligation
	for _, o := range rr.allObls {
		if o.Name == name && !o.Cover && o.Result != "unsat" {
			if o.Result == "sat" || o.File == "" {
				return false
			}
			insts = append(insts, o)
		}
	}
	if len(insts) == 0 || len(insts) > 24 {
		return false
	}
	for _, o := range insts {
		ok := false
		for try := 1; try <= 2 && !ok; try++ {
			r := race(o.File, timeoutS*3, seed+100*try, "")
			if r.res == "unsat" {
				o.Result, o.Solver, o.Ms = "unsat", r.solver+"(retry)", o.Ms+r.ms
				ok = true
			} else if r.res == "sat" {
				o.Result = "sat"
				return false
			}
		}
		if !ok {
			return false
		}
	}
	if a := rr.aggs[name]; a != nil {
		a.Result = "discharged"
		a.Backend += ",retry"
		a.Bad = nil
	}
	return true
}

// cmdReplay re-runs a recorded violation: the SMT query of the failed obligation (all three solvers) and every
// replay test indexed for the obligation, against /repo's current tree. Exit 1 if the violation reproduces
// (a solver answers sat or a replay test fails), 0 otherwise.
func cmdReplay(args []string) int {
	if len(args) != 1 {
		fmt.Println("usage: govc replay <replay-file.json>")
		return 2
	}
	b, err := os.ReadFile(args[0])
	if err != nil {
		fmt.Fprintln(os.Stderr, err)
		return 2
	}
	var rec struct {
		Property  string    `json:"property"`
		Violation violation `json:"violation"`
	}
	if err := json.Unmarshal(b, &rec); err != nil {
		fmt.Fprintln(os.Stderr, err)
		return 2
	}
	v := rec.Violation
	fmt.Printf("property=%s obligation=%s reason=%s\n%s\n", rec.Property, v.Obligation, v.Reason, v.Detail)
	repro := false
	if v.SMTFile != "" {
		if _, err := os.Stat(v.SMTFile); err == nil {
			for _, sc := range solvers(30, 1) {
				ctx, cancel := context.WithTimeout(context.Background(), 15*time.Minute)
				r := runSolver(ctx, sc, v.SMTFile)
				cancel()
				fmt.Printf("solver %-7s %s (%d ms cpu) on %s\n", sc.Name, r.res, r.ms, v.SMTFile)
				if r.res == "sat" {
					repro = true
				}
			}
		}
	}
	n := 0
	for _, re := range loadReplayIndex() {
		if ok, _ := regexp.MatchString(re.Pattern, v.Obligation); ok && n < maxReplayRuns {
			n++
			out, failed, cmd := runReplay(re)
			fmt.Printf("replay test %s (%s): failed=%v\n  %s\n%s\n", re.Run, re.What, failed, cmd, out)
			if failed {
				repro = true
				break
			}
		}
	}
	if repro {
		fmt.Println("REPRODUCED")
		return 1
	}
	fmt.Println("not reproduced on the current tree")
	return 0
}
