package main

// Contract files: Gobra-style "//@" comment lines in verif-tagged, comment-only
// Go files inside /repo (zz_contracts_verif.go) plus trusted contracts for the
// standard library in /verif/govc/stdlib_contracts.txt.

import (
	"bufio"
	"fmt"
	"os"
	"path/filepath"
	"regexp"
	"strconv"
	"strings"
)

type Clause struct {
	Label string
	Src   string
	E     *Expr
	File  string
	Line  int
}

type GhostAssign struct {
	LHS      *Expr
	RHS      *Expr
	Src      string
	Cond     *Expr
	SuchThat bool // "lhs :| P": lhs gets an arbitrary value satisfying P (P is evaluated after the update)
}

type LoopSpec struct {
	FullCut    bool // "loop k cut": paths end at the loop head; one continuation starts from the invariant alone
	Invariants []*Clause
	Decreases  *Clause
	Ghost      []*GhostAssign // executed on the back edge, before the invariant is re-checked
}

type Param struct {
	Name string
	Typ  *TypeExpr
}

type Contract struct {
	Name         string // short function name, or callback key
	Pkg          string // package name the block was declared in
	Props        []string
	Trusted      bool
	Inline       bool
	NoInline     bool
	Pure         bool // callee has no heap effect at all
	Requires     []*Clause
	Ensures      []*Clause
	Modifies     []*Expr // expressions denoting locations; "heap(T.f)" for a whole heap
	ModAll       bool    // modifies * (everything)
	FrameChecked bool    // "modifies none" or any modifies clause: frame obligations are generated
	FrameAlive   bool    // frame compared on addresses alive at entry only (default)
	Loops        map[int]*LoopSpec
	GhostExit    []*GhostAssign
	GhostPre     []*GhostAssign
	Uses         []string
	Mode         string               // "" (sequential) | "step" (thread-modular: interference between atomic steps)
	Atomics      map[int][]*atomicAnn // annotations of the k-th sync/atomic call (source order): ghost updates and asserts
	Assumes      []*Clause            // "assume[label] E": assumed when the body is verified, NOT checked at call sites (listed in evidence)
	StepOp       bool                 // "step-op": in thread-modular mode a call to this function is one atomic step (even if it only reads shared state)
	Drains       bool                 // "drains": the function may only return after a channel receive reported the channel closed
	ModArgs      bool                 // "modifies-args": memory reachable through pointer/slice arguments is havocked as well (external functions)
	CallHavoc    []callHavoc          // "call <callee> havoc items": at these call sites the callee is abstracted to a havoc of the items (trusted)
	AtCall       []atCallGhost        // "at-call <callee-key> lhs := rhs": ghost assignment executed just before matching calls
	Recv         []*chanClause        // "recv v assume E": every channel receive yields a value v satisfying E
	Send         []*chanClause        // "send v assert E": every channel send of value v must satisfy E (obligation)
	Forced       []forcedUse          // "use! a b for <substring of obligation kind>"
	Params       []Param              // only for callbacks / stdlib contracts that rename params
	Results      []Param
	File         string
	Line         int
	Bounded      int // >0: loops unrolled this many times instead of invariants (bounded stand-in)
	NoPanic      bool
	ChainEnsures bool // each ensures clause is proved assuming the clauses before it (sequential asserts at exit)
	Notes        []string
	Asserts      map[string][]*Clause // "call:<callee>#k" -> assumptions at call sites (assume-contract)
}

type callHavoc struct {
	Callee string
	Items  []*Expr
	All    bool
}

type atomicAnn struct {
	GA     *GhostAssign // ghost update executed right after the atomic operation ("ret" names its result)
	Assert *Clause      // obligation checked right after the ghost updates of this step
	Pre    *Clause      // obligation checked just before the step (after interference)
}

// StepSpec: package-level declarations of the thread-modular mode.
type StepSpec struct {
	Shared []*Expr   // heap designators (same forms as modifies): state other threads may change
	Invs   []*Clause // global invariants: hold between atomic steps
	Relies []*Clause // two-state relations satisfied by every step of another thread (old = before)
	Locks  []*lockSpec
}

type lockSpec struct {
	Kind     string // "mutex" | "trylock"
	Field    string // pkg.T.f (try-lock flag) or pkg.T (embedded sync.Mutex)
	Protects []*Expr
}

type atCallGhost struct {
	Callee string
	GA     *GhostAssign
	Assert *Clause // "at-call <callee> assert[label] E": obligation just before the call; arg0.. name the call's arguments
}

type chanClause struct {
	Var string
	C   *Clause
}

type forcedUse struct {
	Names []string
	Pat   string
}

type PureFn struct {
	Name   string
	Pkg    string
	Params []Param
	Ret    *TypeExpr
	Body   *Expr // nil: uninterpreted
	Reads  []string // uninterpreted function of these heaps too (state-reading callback results)
	Src    string
}

type Axiom struct {
	Name    string
	Pkg     string
	E       *Expr
	Src     string
	IsLemma bool
	Uses    []string
	Props   []string
}

type GhostField struct {
	Pkg    string
	Struct string
	Name   string
	Typ    *TypeExpr
}

type ContractDB struct {
	Steps     map[string]*StepSpec // by package name
	Funcs     map[string]*Contract
	Callbacks map[string]*Contract // "field:pkg.T.f" or "type:pkg.T"
	Pures     map[string]*PureFn
	StateHeaps map[string]bool // heaps read by state-reading ufuns; bound by a 'state' quantifier binder
	Axioms    map[string]*Axiom
	Ghosts    map[string]*GhostField // "pkg.T.f"
	Order     []string
	Errors    []string
}

func NewContractDB() *ContractDB {
	return &ContractDB{Funcs: map[string]*Contract{}, Callbacks: map[string]*Contract{}, Pures: map[string]*PureFn{}, StateHeaps: map[string]bool{},
		Axioms: map[string]*Axiom{}, Ghosts: map[string]*GhostField{}, Steps: map[string]*StepSpec{}}
}

var clauseKeywords = map[string]bool{"func": true, "props": true, "trusted": true, "inline": true, "noinline": true, "pure-call": true,
	"requires": true, "ensures": true, "modifies": true, "assume": true, "call": true, "step-op": true, "drains": true, "modifies-args": true, "mode": true, "atomic": true, "shared": true, "inv": true, "rely": true, "lock": true, "use!": true, "at-call": true, "recv": true, "send": true, "loop": true, "ghost-exit": true, "ghost-pre": true, "use": true, "ghost": true,
	"pure": true, "ufun": true, "axiom": true, "lemma": true, "callback-field": true, "callback-type": true,
	"bounded": true, "nopanic": true, "chain-ensures": true, "note": true, "end": true, "params": true, "results": true}

var labelRe = regexp.MustCompile(`^\[([A-Za-z0-9_\-\.]+)\]\s*`)

// readSpecLines returns the logical "//@" lines of a file (continuations joined).
type specLine struct {
	kw, rest string
	file     string
	line     int
}

func readSpecLines(path string, raw bool) ([]specLine, string, error) {
	f, err := os.Open(path)
	if err != nil {
		return nil, "", err
	}
	defer f.Close()
	var out []specLine
	pkg := ""
	sc := bufio.NewScanner(f)
	sc.Buffer(make([]byte, 1<<20), 1<<20)
	ln := 0
	for sc.Scan() {
		ln++
		line := strings.TrimSpace(sc.Text())
		if strings.HasPrefix(line, "package ") && pkg == "" {
			pkg = strings.TrimSpace(strings.TrimPrefix(line, "package "))
			continue
		}
		var body string
		if strings.HasPrefix(line, "//@") {
			body = strings.TrimSpace(line[3:])
		} else if raw && !strings.HasPrefix(line, "#") && !strings.HasPrefix(line, "//") {
			body = line
		} else {
			continue
		}
		if body == "" {
			continue
		}
		// strip trailing "// comment"
		if i := strings.Index(body, " // "); i >= 0 {
			body = strings.TrimSpace(body[:i])
		}
		kw := body
		rest := ""
		if i := strings.IndexAny(body, " \t["); i >= 0 {
			kw = body[:i]
			rest = strings.TrimSpace(body[i:])
		}
		if clauseKeywords[kw] {
			out = append(out, specLine{kw, rest, path, ln})
		} else if len(out) > 0 {
			out[len(out)-1].rest += " " + body
		} else {
			return nil, pkg, fmt.Errorf("%s:%d: continuation without clause", path, ln)
		}
	}
	return out, pkg, sc.Err()
}

func parseParams(s string) ([]Param, error) {
	s = strings.TrimSpace(s)
	if s == "" {
		return nil, nil
	}
	toks, err := lexSpec(s)
	if err != nil {
		return nil, err
	}
	ps := &specParser{toks: toks, src: s}
	var out []Param
	var perr error
	func() {
		defer func() {
			if r := recover(); r != nil {
				perr = fmt.Errorf("bad params %q: %v", s, r)
			}
		}()
		for {
			var names []string
			for {
				n := ps.next()
				names = append(names, n.s)
				if !ps.accept(",") {
					break
				}
			}
			ty := ps.typ()
			for _, n := range names {
				out = append(out, Param{n, ty})
			}
			if !ps.accept(",") {
				break
			}
		}
	}()
	return out, perr
}

// splitSig parses "name(params) ret" and returns name, params, rest-after-paren.
func splitSig(s string) (string, string, string, error) {
	i := strings.Index(s, "(")
	if i < 0 {
		return "", "", "", fmt.Errorf("expected '(' in %q", s)
	}
	depth := 0
	for j := i; j < len(s); j++ {
		if s[j] == '(' {
			depth++
		} else if s[j] == ')' {
			depth--
			if depth == 0 {
				return strings.TrimSpace(s[:i]), s[i+1 : j], strings.TrimSpace(s[j+1:]), nil
			}
		}
	}
	return "", "", "", fmt.Errorf("unbalanced parens in %q", s)
}

func parseTypeStr(s string) (*TypeExpr, error) {
	toks, err := lexSpec(s)
	if err != nil {
		return nil, err
	}
	ps := &specParser{toks: toks, src: s}
	var t *TypeExpr
	var perr error
	func() {
		defer func() {
			if r := recover(); r != nil {
				perr = fmt.Errorf("bad type %q: %v", s, r)
			}
		}()
		t = ps.typ()
	}()
	return t, perr
}

func (db *ContractDB) errf(l specLine, f string, a ...interface{}) {
	db.Errors = append(db.Errors, fmt.Sprintf("%s:%d: ", l.file, l.line)+fmt.Sprintf(f, a...))
}

func parseGhostAssign(src string) (*GhostAssign, error) {
	var cond *Expr
	if strings.HasPrefix(src, "if ") {
		i := strings.Index(src, " then ")
		if i < 0 {
			return nil, fmt.Errorf("ghost: 'if c then lhs := rhs' expected in %q", src)
		}
		c, err := ParseSpec(src[3:i])
		if err != nil {
			return nil, err
		}
		cond = c
		src = strings.TrimSpace(src[i+6:])
	}
	if k := strings.Index(src, ":|"); k >= 0 && !strings.Contains(src[:k], ":=") {
		l, err := ParseSpec(src[:k])
		if err != nil {
			return nil, err
		}
		r, err := ParseSpec(src[k+2:])
		if err != nil {
			return nil, err
		}
		return &GhostAssign{LHS: l, RHS: r, Src: src, Cond: cond, SuchThat: true}, nil
	}
	i := strings.Index(src, ":=")
	if i < 0 {
		return nil, fmt.Errorf("ghost assignment needs ':=' or ':|' in %q", src)
	}
	l, err := ParseSpec(src[:i])
	if err != nil {
		return nil, err
	}
	r, err := ParseSpec(src[i+2:])
	if err != nil {
		return nil, err
	}
	return &GhostAssign{LHS: l, RHS: r, Src: src, Cond: cond}, nil
}

// LoadFile parses one contract file. raw=true: every non-comment line is a spec line (stdlib file).
func (db *ContractDB) LoadFile(path string, raw bool) error {
	lines, pkg, err := readSpecLines(path, raw)
	if err != nil {
		return err
	}
	if raw {
		pkg = ""
	}
	var cur *Contract
	qual := func(name string) string {
		// "(*T).m" -> "(*pkg.T).m"; "f" -> "pkg.f"; already qualified names are kept
		if pkg == "" {
			return name
		}
		if strings.HasPrefix(name, "(*") {
			if strings.Contains(name[:strings.Index(name, ")")], ".") {
				return name
			}
			return "(*" + pkg + "." + name[2:]
		}
		if strings.HasPrefix(name, "(") {
			if strings.Contains(name[:strings.Index(name, ")")], ".") {
				return name
			}
			return "(" + pkg + "." + name[1:]
		}
		if strings.Contains(strings.SplitN(name, "$", 2)[0], ".") {
			return name
		}
		return pkg + "." + name
	}
	mkClause := func(l specLine) *Clause {
		rest := l.rest
		label := ""
		if m := labelRe.FindStringSubmatch(rest); m != nil {
			label = m[1]
			rest = rest[len(m[0]):]
		}
		e, err := ParseSpec(rest)
		if err != nil {
			db.errf(l, "%v", err)
			return nil
		}
		return &Clause{Label: label, Src: rest, E: e, File: l.file, Line: l.line}
	}
	for _, l := range lines {
		switch l.kw {
		case "func", "callback-field", "callback-type":
			cur = &Contract{Pkg: pkg, File: l.file, Line: l.line, Loops: map[int]*LoopSpec{}, Asserts: map[string][]*Clause{}}
			if l.kw == "func" {
				nm := strings.TrimSpace(l.rest)
				variant := ""
				if i := strings.Index(nm, " @"); i >= 0 {
					variant = "@" + strings.TrimSpace(nm[i+2:])
					nm = strings.TrimSpace(nm[:i])
				}
				cur.Name = qual(nm) + variant
				if _, dup := db.Funcs[cur.Name]; dup {
					db.errf(l, "duplicate contract for %s", cur.Name)
				}
				db.Funcs[cur.Name] = cur
				db.Order = append(db.Order, cur.Name)
			} else {
				rest := l.rest
				quoted := ""
				if strings.HasPrefix(rest, "\"") {
					if k := strings.Index(rest[1:], "\""); k >= 0 {
						quoted = rest[1 : 1+k]
						rest = "Q" + rest[2+k:]
					}
				}
				name, params, ret, err := splitSig(rest)
				if quoted != "" {
					name = quoted
				}
				if err != nil {
					db.errf(l, "%v", err)
					continue
				}
				ps, err := parseParams(params)
				if err != nil {
					db.errf(l, "%v", err)
				}
				cur.Params = ps
				if ret != "" {
					rs, err := parseParams(ret)
					if err != nil {
						db.errf(l, "%v", err)
					}
					cur.Results = rs
				}
				if quoted == "" && (!strings.Contains(name, ".") || (pkg != "" && strings.Count(name, ".") == 1 && l.kw == "callback-field")) {
					name = pkg + "." + name
				}
				key := strings.TrimPrefix(l.kw, "callback-") + ":" + name
				cur.Name = key
				db.Callbacks[key] = cur
			}
		case "end":
			cur = nil
		case "ghost":
			// ghost field T.name type
			f := strings.Fields(l.rest)
			if len(f) >= 3 && f[0] == "global" {
				ty, err := parseTypeStr(strings.Join(f[2:], " "))
				if err != nil {
					db.errf(l, "bad ghost global: %v", err)
					continue
				}
				db.Ghosts["$g."+f[1]] = &GhostField{Pkg: pkg, Struct: "", Name: f[1], Typ: ty}
				continue
			}
			if len(f) < 3 || f[0] != "field" {
				db.errf(l, "expected: ghost field T.name type | ghost global name type")
				continue
			}
			parts := strings.SplitN(f[1], ".", 2)
			ty, err := parseTypeStr(strings.Join(f[2:], " "))
			if err != nil || len(parts) != 2 {
				db.errf(l, "bad ghost field: %v", err)
				continue
			}
			g := &GhostField{Pkg: pkg, Struct: parts[0], Name: parts[1], Typ: ty}
			db.Ghosts[pkg+"."+f[1]] = g
		case "pure", "ufun":
			name, params, rest, err := splitSig(l.rest)
			if err != nil {
				db.errf(l, "%v", err)
				continue
			}
			ps, err := parseParams(params)
			if err != nil {
				db.errf(l, "%v", err)
				continue
			}
			pf := &PureFn{Name: name, Pkg: pkg, Params: ps, Src: l.rest}
			retS := rest
			if i := strings.Index(rest, " reads "); i >= 0 && l.kw == "ufun" {
				retS = strings.TrimSpace(rest[:i])
				for _, h := range strings.Fields(strings.ReplaceAll(rest[i+7:], ",", " ")) {
					pf.Reads = append(pf.Reads, h)
					db.StateHeaps[h] = true
				}
			}
			if i := strings.Index(rest, "="); i >= 0 && l.kw == "pure" {
				retS = strings.TrimSpace(rest[:i])
				body, err := ParseSpec(rest[i+1:])
				if err != nil {
					db.errf(l, "%v", err)
					continue
				}
				pf.Body = body
			}
			rt, err := parseTypeStr(retS)
			if err != nil {
				db.errf(l, "%v", err)
				continue
			}
			pf.Ret = rt
			db.Pures[name] = pf
		case "shared", "inv", "rely", "lock":
			sp := db.Steps[pkg]
			if sp == nil {
				sp = &StepSpec{}
				db.Steps[pkg] = sp
			}
			switch l.kw {
			case "shared":
				for _, item := range splitTop(l.rest) {
					e, err := ParseSpec(item)
					if err != nil {
						db.errf(l, "%v", err)
						continue
					}
					sp.Shared = append(sp.Shared, e)
				}
			case "inv", "rely":
				i := strings.Index(l.rest, ":")
				if i < 0 {
					db.errf(l, "expected: %s name: expr", l.kw)
					continue
				}
				e, err := ParseSpec(l.rest[i+1:])
				if err != nil {
					db.errf(l, "%v", err)
					continue
				}
				c := &Clause{Label: strings.TrimSpace(l.rest[:i]), Src: strings.TrimSpace(l.rest[i+1:]), E: e, File: l.file, Line: l.line}
				if l.kw == "inv" {
					sp.Invs = append(sp.Invs, c)
				} else {
					sp.Relies = append(sp.Relies, c)
				}
			case "lock":
				// lock mutex T protects a, b | lock trylock T.f protects a, b
				f := strings.SplitN(l.rest, " ", 4)
				if len(f) < 4 || f[2] != "protects" {
					db.errf(l, "expected: lock mutex|trylock T[.f] protects items")
					continue
				}
				ls := &lockSpec{Kind: f[0], Field: pkg + "." + f[1]}
				for _, item := range splitTop(f[3]) {
					e, err := ParseSpec(item)
					if err != nil {
						db.errf(l, "%v", err)
						continue
					}
					ls.Protects = append(ls.Protects, e)
				}
				sp.Locks = append(sp.Locks, ls)
			}
		case "axiom", "lemma":
			i := strings.Index(l.rest, ":")
			if i < 0 {
				db.errf(l, "expected: axiom name: expr")
				continue
			}
			head := strings.Fields(l.rest[:i])
			e, err := ParseSpec(l.rest[i+1:])
			if err != nil {
				db.errf(l, "%v", err)
				continue
			}
			ax := &Axiom{Name: head[0], Pkg: pkg, E: e, Src: strings.TrimSpace(l.rest[i+1:]), IsLemma: l.kw == "lemma"}
			for _, h := range head[1:] {
				if strings.HasPrefix(h, "use=") {
					ax.Uses = strings.Split(h[4:], ",")
				} else if strings.HasPrefix(h, "props=") {
					ax.Props = strings.Split(h[6:], ",")
				}
			}
			db.Axioms[ax.Name] = ax
		default:
			if cur == nil {
				db.errf(l, "clause '%s' outside a func block", l.kw)
				continue
			}
			switch l.kw {
			case "props":
				cur.Props = append(cur.Props, strings.Fields(l.rest)...)
			case "trusted":
				cur.Trusted = true
				if l.rest != "" {
					cur.Notes = append(cur.Notes, l.rest)
				}
			case "inline":
				cur.Inline = true
			case "noinline":
				cur.NoInline = true
			case "pure-call":
				cur.Pure = true
			case "nopanic":
				cur.NoPanic = true
			case "chain-ensures":
				cur.ChainEnsures = true
			case "note":
				cur.Notes = append(cur.Notes, l.rest)
			case "bounded":
				n, _ := strconv.Atoi(strings.TrimSpace(l.rest))
				cur.Bounded = n
			case "use":
				cur.Uses = append(cur.Uses, strings.Fields(strings.ReplaceAll(l.rest, ",", " "))...)
			case "step-op":
				cur.StepOp = true
			case "drains":
				cur.Drains = true
			case "modifies-args":
				cur.ModArgs = true
			case "at-call":
				f := strings.SplitN(l.rest, " ", 2)
				if len(f) < 2 {
					db.errf(l, "expected: at-call <callee> lhs := rhs")
					continue
				}
				if rest := strings.TrimSpace(f[1]); strings.HasPrefix(rest, "assert") {
					l2 := l
					l2.rest = strings.TrimSpace(rest[len("assert"):])
					if c := mkClause(l2); c != nil {
						cur.AtCall = append(cur.AtCall, atCallGhost{Callee: f[0], Assert: c})
					}
					continue
				}
				ga, err := parseGhostAssign(strings.TrimSpace(f[1]))
				if err != nil {
					db.errf(l, "%v", err)
					continue
				}
				cur.AtCall = append(cur.AtCall, atCallGhost{Callee: f[0], GA: ga})
			case "recv", "send":
				f := strings.SplitN(l.rest, " ", 3)
				if len(f) == 3 && strings.HasPrefix(f[1], "assert[") {
					f[2] = f[1][len("assert"):] + " " + f[2]
					f[1] = "assert"
				}
				if len(f) < 3 || (f[1] != "assume" && f[1] != "assert") {
					db.errf(l, "expected: recv v assume E | send v assert E")
					continue
				}
				l2 := l
				l2.rest = f[2]
				c := mkClause(l2)
				if c == nil {
					continue
				}
				if l.kw == "recv" {
					cur.Recv = append(cur.Recv, &chanClause{Var: f[0], C: c})
				} else {
					cur.Send = append(cur.Send, &chanClause{Var: f[0], C: c})
				}
			case "use!":
				parts := strings.SplitN(l.rest, " for ", 2)
				fu := forcedUse{Names: strings.Fields(strings.ReplaceAll(parts[0], ",", " "))}
				if len(parts) == 2 {
					fu.Pat = strings.TrimSpace(parts[1])
				}
				cur.Forced = append(cur.Forced, fu)
			case "params":
				ps, err := parseParams(l.rest)
				if err != nil {
					db.errf(l, "%v", err)
				}
				cur.Params = ps
			case "results":
				ps, err := parseParams(l.rest)
				if err != nil {
					db.errf(l, "%v", err)
				}
				cur.Results = ps
			case "requires":
				if c := mkClause(l); c != nil {
					cur.Requires = append(cur.Requires, c)
				}
			case "ensures":
				if c := mkClause(l); c != nil {
					cur.Ensures = append(cur.Ensures, c)
				}
			case "assume":
				if c := mkClause(l); c != nil {
					cur.Assumes = append(cur.Assumes, c)
				}
			case "call":
				f := strings.SplitN(l.rest, " ", 3)
				if len(f) < 3 || f[1] != "havoc" {
					db.errf(l, "expected: call <callee> havoc items|*|none")
					continue
				}
				ch := callHavoc{Callee: f[0]}
				switch strings.TrimSpace(f[2]) {
				case "*":
					ch.All = true
				case "none":
				default:
					for _, item := range splitTop(f[2]) {
						e, err := ParseSpec(item)
						if err != nil {
							db.errf(l, "%v", err)
							continue
						}
						ch.Items = append(ch.Items, e)
					}
				}
				cur.CallHavoc = append(cur.CallHavoc, ch)
			case "mode":
				cur.Mode = strings.TrimSpace(l.rest)
			case "atomic":
				// atomic k ghost lhs := rhs | atomic k assert[label] E | atomic k pre[label] E
				f := strings.SplitN(l.rest, " ", 3)
				if len(f) < 3 {
					db.errf(l, "expected: atomic k ghost|assert|pre ...")
					continue
				}
				k, err := strconv.Atoi(f[0])
				if err != nil {
					db.errf(l, "bad atomic ordinal %q", f[0])
					continue
				}
				if cur.Atomics == nil {
					cur.Atomics = map[int][]*atomicAnn{}
				}
				kw2, rest := f[1], f[2]
				for _, pre := range []string{"assert", "pre"} {
					if strings.HasPrefix(kw2, pre+"[") {
						rest = kw2[len(pre):] + " " + rest
						kw2 = pre
					}
				}
				l2 := l
				l2.rest = rest
				switch kw2 {
				case "ghost":
					ga, err := parseGhostAssign(rest)
					if err != nil {
						db.errf(l, "%v", err)
						continue
					}
					cur.Atomics[k] = append(cur.Atomics[k], &atomicAnn{GA: ga})
				case "assert":
					if c := mkClause(l2); c != nil {
						cur.Atomics[k] = append(cur.Atomics[k], &atomicAnn{Assert: c})
					}
				case "pre":
					if c := mkClause(l2); c != nil {
						cur.Atomics[k] = append(cur.Atomics[k], &atomicAnn{Pre: c})
					}
				default:
					db.errf(l, "unknown atomic clause %q", kw2)
				}
			case "modifies":
				if strings.TrimSpace(l.rest) == "*" {
					cur.ModAll = true
					continue
				}
				cur.FrameChecked = true
				cur.FrameAlive = true
				if r := strings.TrimSpace(l.rest); r == "none" || r == "nothing" {
					continue
				}
				for _, item := range splitTop(l.rest) {
					e, err := ParseSpec(item)
					if err != nil {
						db.errf(l, "%v", err)
						continue
					}
					cur.Modifies = append(cur.Modifies, e)
				}
			case "ghost-exit", "ghost-pre":
				ga, err := parseGhostAssign(l.rest)
				if err != nil {
					db.errf(l, "%v", err)
					continue
				}
				if l.kw == "ghost-exit" {
					cur.GhostExit = append(cur.GhostExit, ga)
				} else {
					cur.GhostPre = append(cur.GhostPre, ga)
				}
			case "loop":
				f := strings.SplitN(l.rest, " ", 3)
				if len(f) == 2 && f[1] == "cut" {
					f = append(f, "")
				}
				if len(f) < 3 {
					db.errf(l, "expected: loop k invariant|decreases|ghost|cut ...")
					continue
				}
				k, err := strconv.Atoi(f[0])
				if err != nil {
					db.errf(l, "bad loop ordinal %q", f[0])
					continue
				}
				ls := cur.Loops[k]
				if ls == nil {
					ls = &LoopSpec{}
					cur.Loops[k] = ls
				}
				kw2 := f[1]
				rest := f[2]
				if strings.HasPrefix(kw2, "invariant[") {
					rest = kw2[len("invariant"):] + " " + rest
					kw2 = "invariant"
				}
				l2 := l
				l2.rest = rest
				switch kw2 {
				case "cut":
					ls.FullCut = true
				case "invariant":
					if c := mkClause(l2); c != nil {
						ls.Invariants = append(ls.Invariants, c)
					}
				case "decreases":
					ls.Decreases = mkClause(l2)
				case "ghost":
					ga, err := parseGhostAssign(rest)
					if err != nil {
						db.errf(l, "%v", err)
						continue
					}
					ls.Ghost = append(ls.Ghost, ga)
				default:
					db.errf(l, "unknown loop clause %q", kw2)
				}
			}
		}
	}
	return nil
}

// splitTop splits on commas that are not nested in parentheses/brackets.
func splitTop(s string) []string {
	var out []string
	depth := 0
	start := 0
	for i, c := range s {
		switch c {
		case '(', '[':
			depth++
		case ')', ']':
			depth--
		case ',':
			if depth == 0 {
				out = append(out, strings.TrimSpace(s[start:i]))
				start = i + 1
			}
		}
	}
	if t := strings.TrimSpace(s[start:]); t != "" {
		out = append(out, t)
	}
	return out
}

// LoadAll loads zz_contracts_verif*.go under repo and the stdlib contract file.
func (db *ContractDB) LoadAll(repo, stdlib string) error {
	var files []string
	filepath.Walk(repo, func(p string, info os.FileInfo, err error) error {
		if err != nil {
			return nil
		}
		if info.IsDir() && (info.Name() == ".git" || info.Name() == "db.dump") {
			return filepath.SkipDir
		}
		if !info.IsDir() && strings.HasPrefix(info.Name(), "zz_contracts_verif") && strings.HasSuffix(info.Name(), ".go") {
			files = append(files, p)
		}
		return nil
	})
	for _, f := range files {
		if err := db.LoadFile(f, false); err != nil {
			return err
		}
	}
	if stdlib != "" {
		if err := db.LoadFile(stdlib, true); err != nil {
			return err
		}
	}
	if len(db.Errors) > 0 {
		return fmt.Errorf("contract errors:\n  %s", strings.Join(db.Errors, "\n  "))
	}
	if os.Getenv("GOVC_PROBE") != "" {
		// vacuity probe (developer tool, `govc vc` only): every verified function gets the postcondition "false".
		// It must NOT discharge: if it does on every return path, the function's proofs are vacuous (contradictory
		// precondition or invariants, or an engine hole that loses paths).
		fe, _ := ParseSpec("false")
		for _, c := range db.Funcs {
			if !c.Trusted && !c.Inline {
				c.Ensures = append(c.Ensures, &Clause{Label: "probe-false", Src: "false (vacuity probe)", E: fe})
			}
		}
	}
	return nil
}
