package main

import (
	"fmt"
	"go/token"
	"go/types"
	"os"
	"sort"
	"strings"

	"golang.org/x/tools/go/packages"
	"golang.org/x/tools/go/ssa"
	"golang.org/x/tools/go/ssa/ssautil"
)

const modPrefix = "github.com/couchbase/nitro"

type Program struct {
	Fset   *token.FileSet
	Prog   *ssa.Program
	Pkgs   map[string]*ssa.Package // by package name (module packages only)
	TPkgs  map[string]*types.Package
	Funcs  map[string]*ssa.Function // short name -> function (module functions incl. closures)
	Sizes  types.Sizes
	Impls  map[string][]*types.Named // interface method resolution cache
	AllSSA []*ssa.Package
}

func LoadProgram(dir string) (*Program, error) {
	cfg := &packages.Config{
		Mode:       packages.LoadAllSyntax,
		Dir:        dir,
		BuildFlags: []string{"-tags=verif"},
		Env:        append(os.Environ(), "GOFLAGS=-mod=mod", "GOPROXY=off", "GOSUMDB=off", "GOTOOLCHAIN=local"),
	}
	pkgs, err := packages.Load(cfg, "./...")
	if err != nil {
		return nil, err
	}
	var errs []string
	packages.Visit(pkgs, nil, func(p *packages.Package) {
		if strings.HasPrefix(p.PkgPath, modPrefix) {
			for _, e := range p.Errors {
				errs = append(errs, e.Error())
			}
		}
	})
	if len(errs) > 0 {
		return nil, fmt.Errorf("load errors (the tree does not compile with -tags verif):\n  %s", strings.Join(errs, "\n  "))
	}
	prog, spkgs := ssautil.AllPackages(pkgs, ssa.InstantiateGenerics|ssa.GlobalDebug)
	prog.Build()
	P := &Program{Prog: prog, Pkgs: map[string]*ssa.Package{}, TPkgs: map[string]*types.Package{}, Funcs: map[string]*ssa.Function{},
		Sizes: types.SizesFor("gc", "amd64"), Impls: map[string][]*types.Named{}}
	if len(pkgs) > 0 {
		P.Fset = pkgs[0].Fset
	}
	for _, sp := range spkgs {
		if sp == nil {
			continue
		}
		P.AllSSA = append(P.AllSSA, sp)
		if strings.HasPrefix(sp.Pkg.Path(), modPrefix) {
			P.Pkgs[sp.Pkg.Name()] = sp
		}
	}
	for _, sp := range prog.AllPackages() {
		P.TPkgs[sp.Pkg.Path()] = sp.Pkg
	}
	for fn := range ssautil.AllFunctions(prog) {
		if fn.Pkg == nil && fn.Parent() == nil {
			// methods of module types have Pkg set; wrappers/thunks don't
			if fn.Synthetic != "" {
				continue
			}
		}
		pk := fnPkg(fn)
		if pk == nil || !strings.HasPrefix(pk.Path(), modPrefix) {
			continue
		}
		if fn.Synthetic != "" && !strings.Contains(fn.Name(), "$") {
			continue
		}
		P.Funcs[ShortName(fn)] = fn
	}
	return P, nil
}

func fnPkg(fn *ssa.Function) *types.Package {
	for f := fn; f != nil; f = f.Parent() {
		if f.Pkg != nil {
			return f.Pkg.Pkg
		}
	}
	if fn.Object() != nil {
		return fn.Object().Pkg()
	}
	return nil
}

// ShortName: "(*skiplist.Skiplist).findPath", "nitro.newInsertCompare$1", "(nitro.Snapshot).Count", "io.ReadFull".
func ShortName(fn *ssa.Function) string {
	s := fn.String()
	return shortenPaths(s)
}

func shortenPaths(s string) string {
	// replace every import path by its last element
	var b strings.Builder
	i := 0
	for i < len(s) {
		// find a maximal run of path characters
		j := i
		for j < len(s) && (isIdentChar(s[j]) || s[j] == '/' || s[j] == '.' || s[j] == '-') {
			j++
		}
		if j > i {
			run := s[i:j]
			if k := strings.LastIndex(run, "/"); k >= 0 {
				run = run[k+1:]
			}
			b.WriteString(run)
			i = j
		} else {
			b.WriteByte(s[i])
			i++
		}
	}
	return b.String()
}

func isIdentChar(c byte) bool {
	return c == '_' || c == '$' || (c >= 'a' && c <= 'z') || (c >= 'A' && c <= 'Z') || (c >= '0' && c <= '9')
}

// typeKey: short name for a named type "pkg.T".
func typeKey(t types.Type) string {
	switch tt := t.(type) {
	case *types.Named:
		o := tt.Obj()
		if o.Pkg() == nil {
			return o.Name()
		}
		return o.Pkg().Name() + "." + o.Name()
	case *types.Alias:
		return typeKey(types.Unalias(tt))
	case *types.Pointer:
		return "*" + typeKey(tt.Elem())
	}
	return shortenPaths(t.String())
}

// memKey: name of the element heap holding values of type t that live in slices / standalone cells.
func memKey(t types.Type) string {
	switch u := t.Underlying().(type) {
	case *types.Basic:
		switch u.Kind() {
		case types.Bool:
			return "bool"
		case types.String:
			return "string"
		case types.UnsafePointer:
			return "ptr"
		case types.Float32, types.Float64:
			return "float"
		case types.Int:
			return "int"
		case types.Uint:
			return "uint"
		case types.Uintptr:
			return "uintptr"
		case types.Uint8:
			return "uint8"
		}
		return u.Name()
	case *types.Pointer:
		return "ptr"
	case *types.Interface:
		return "iface"
	case *types.Signature:
		return "func"
	case *types.Chan:
		return "chan"
	case *types.Map:
		return "map"
	case *types.Slice:
		return "slice"
	}
	return "other"
}

func isBool(t types.Type) bool {
	b, ok := t.Underlying().(*types.Basic)
	return ok && b.Info()&types.IsBoolean != 0
}

func isInteger(t types.Type) bool {
	b, ok := t.Underlying().(*types.Basic)
	return ok && b.Info()&types.IsInteger != 0
}

func isFloat(t types.Type) bool {
	b, ok := t.Underlying().(*types.Basic)
	return ok && b.Info()&types.IsFloat != 0
}

func isUnsigned(t types.Type) bool {
	b, ok := t.Underlying().(*types.Basic)
	return ok && b.Info()&types.IsUnsigned != 0
}

// intBits returns the width of an integer type (uintptr/int/uint = 64).
func intBits(t types.Type) int {
	b, ok := t.Underlying().(*types.Basic)
	if !ok {
		return 64
	}
	switch b.Kind() {
	case types.Int8, types.Uint8:
		return 8
	case types.Int16, types.Uint16:
		return 16
	case types.Int32, types.Uint32:
		return 32
	}
	return 64
}

func pow2(n int) string {
	// decimal string of 2^n, n <= 64
	v := []int{1}
	for i := 0; i < n; i++ {
		carry := 0
		for j := 0; j < len(v); j++ {
			x := v[j]*2 + carry
			v[j] = x % 10
			carry = x / 10
		}
		if carry > 0 {
			v = append(v, carry)
		}
	}
	var b strings.Builder
	for j := len(v) - 1; j >= 0; j-- {
		b.WriteByte(byte('0' + v[j]))
	}
	return b.String()
}

// intRange returns SMT terms lo, hi (inclusive) for an integer type.
func intRange(t types.Type) (string, string) {
	n := intBits(t)
	if isUnsigned(t) {
		return "0", "(- " + pow2(n) + " 1)"
	}
	return "(- " + pow2(n-1) + ")", "(- " + pow2(n-1) + " 1)"
}

func sortedKeys[M ~map[string]V, V any](m M) []string {
	ks := make([]string, 0, len(m))
	for k := range m {
		ks = append(ks, k)
	}
	sort.Strings(ks)
	return ks
}

// structOf returns the struct underlying a (pointer to a) named type, or nil.
func structOf(t types.Type) (*types.Struct, types.Type) {
	if p, ok := t.Underlying().(*types.Pointer); ok {
		t = p.Elem()
	}
	s, _ := t.Underlying().(*types.Struct)
	return s, t
}

func (P *Program) fieldOffset(st *types.Struct, i int) int64 {
	fields := make([]*types.Var, st.NumFields())
	for k := range fields {
		fields[k] = st.Field(k)
	}
	return P.Sizes.Offsetsof(fields)[i]
}

func (P *Program) sizeof(t types.Type) int64 { return P.Sizes.Sizeof(t) }

// lookupType resolves a TypeExpr relative to package pkgName.
func (P *Program) lookupType(te *TypeExpr, pkgName string) (types.Type, error) {
	switch {
	case te.Star:
		e, err := P.lookupType(te.Elem, pkgName)
		if err != nil {
			return nil, err
		}
		return types.NewPointer(e), nil
	case te.Slice:
		e, err := P.lookupType(te.Elem, pkgName)
		if err != nil {
			return nil, err
		}
		return types.NewSlice(e), nil
	case te.Map != nil:
		k, err := P.lookupType(te.Map, pkgName)
		if err != nil {
			return nil, err
		}
		e, err := P.lookupType(te.Elem, pkgName)
		if err != nil {
			return nil, err
		}
		return types.NewMap(k, e), nil
	}
	pk := te.Pkg
	if pk == "" {
		if te.Name == "ref" {
			return types.Typ[types.UnsafePointer], nil
		}
		if o := types.Universe.Lookup(te.Name); o != nil {
			if tn, ok := o.(*types.TypeName); ok {
				return tn.Type(), nil
			}
		}
		pk = pkgName
	}
	if pk == "unsafe" && te.Name == "Pointer" {
		return types.Typ[types.UnsafePointer], nil
	}
	if sp, ok := P.Pkgs[pk]; ok {
		if o := sp.Pkg.Scope().Lookup(te.Name); o != nil {
			if tn, ok := o.(*types.TypeName); ok {
				return tn.Type(), nil
			}
		}
	}
	for path, tp := range P.TPkgs {
		if tp.Name() == pk && !strings.Contains(path, "/internal/") && !strings.Contains(path, "vendor/") {
			if o := tp.Scope().Lookup(te.Name); o != nil {
				if tn, ok := o.(*types.TypeName); ok {
					return tn.Type(), nil
				}
			}
		}
	}
	return nil, fmt.Errorf("unknown type %s (in package %s)", te.String(), pkgName)
}
