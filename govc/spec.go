package main

// Spec expression language: lexer, parser, AST.
//
//	forall i, j int :: P      exists x *Item :: P
//	a ==> b   a <==> b   && || ! == != < <= > >= + - * / %
//	old(e)  result  nil  true false  ite(c,a,b)  cast(*T, e)
//	e.f   e[i]   f(args)   len(e)

import (
	"fmt"
	"strings"
	"unicode"
)

type TypeExpr struct {
	Star  bool      // *T
	Slice bool      // []T
	Map   *TypeExpr // [K]V ghost map: Map=K, Elem=V
	Elem  *TypeExpr
	Pkg   string
	Name  string
}

func (t *TypeExpr) String() string {
	switch {
	case t == nil:
		return "?"
	case t.Star:
		return "*" + t.Elem.String()
	case t.Slice:
		return "[]" + t.Elem.String()
	case t.Map != nil:
		return "[" + t.Map.String() + "]" + t.Elem.String()
	case t.Pkg != "":
		return t.Pkg + "." + t.Name
	}
	return t.Name
}

type Binder struct {
	Name string
	Typ  *TypeExpr
}

type Expr struct {
	Op      string // "int","ident","nil","true","false","old","result","sel","index","call","cast","forall","exists", binary ops, "!","neg","ite"
	Name    string
	Args    []*Expr
	Binders []Binder
	Typ     *TypeExpr
	Pos     int
	Pats    [][]*Expr // quantifier triggers: forall i int {p1, p2}{p3} :: body
}

func (e *Expr) String() string {
	switch e.Op {
	case "int", "ident":
		return e.Name
	case "nil", "true", "false", "result":
		return e.Op
	case "old", "now":
		return e.Op + "(" + e.Args[0].String() + ")"
	case "sel":
		return e.Args[0].String() + "." + e.Name
	case "index":
		return e.Args[0].String() + "[" + e.Args[1].String() + "]"
	case "call":
		var as []string
		for _, a := range e.Args {
			as = append(as, a.String())
		}
		return e.Name + "(" + strings.Join(as, ", ") + ")"
	case "cast":
		return "cast(" + e.Typ.String() + ", " + e.Args[0].String() + ")"
	case "forall", "exists":
		var bs []string
		for _, b := range e.Binders {
			bs = append(bs, b.Name+" "+b.Typ.String())
		}
		return "(" + e.Op + " " + strings.Join(bs, ", ") + " :: " + e.Args[0].String() + ")"
	case "!", "neg":
		if e.Op == "neg" {
			return "-" + e.Args[0].String()
		}
		return "!" + e.Args[0].String()
	case "ite":
		return "ite(" + e.Args[0].String() + ", " + e.Args[1].String() + ", " + e.Args[2].String() + ")"
	}
	if len(e.Args) == 2 {
		return "(" + e.Args[0].String() + " " + e.Op + " " + e.Args[1].String() + ")"
	}
	return e.Op
}

type stok struct {
	kind string // "id","int","op","eof"
	s    string
	pos  int
}

func lexSpec(src string) ([]stok, error) {
	var toks []stok
	i := 0
	for i < len(src) {
		c := rune(src[i])
		switch {
		case unicode.IsSpace(c):
			i++
		case unicode.IsLetter(c) || c == '_' || c == '$':
			j := i + 1
			for j < len(src) && (unicode.IsLetter(rune(src[j])) || unicode.IsDigit(rune(src[j])) || src[j] == '_' || src[j] == '$') {
				j++
			}
			toks = append(toks, stok{"id", src[i:j], i})
			i = j
		case unicode.IsDigit(c):
			j := i + 1
			for j < len(src) && (unicode.IsDigit(rune(src[j])) || src[j] == 'x' || (src[j] >= 'a' && src[j] <= 'f') || (src[j] >= 'A' && src[j] <= 'F')) {
				j++
			}
			toks = append(toks, stok{"int", src[i:j], i})
			i = j
		default:
			ops := []string{"<==>", "==>", "::", "==", "!=", "<=", ">=", "&&", "||", "<<", ">>", "++"}
			matched := false
			for _, op := range ops {
				if strings.HasPrefix(src[i:], op) {
					toks = append(toks, stok{"op", op, i})
					i += len(op)
					matched = true
					break
				}
			}
			if matched {
				continue
			}
			if strings.ContainsRune("+-*/%<>!()[].,:&|{}", c) {
				toks = append(toks, stok{"op", string(c), i})
				i++
				continue
			}
			return nil, fmt.Errorf("spec: unexpected character %q at %d in %q", c, i, src)
		}
	}
	toks = append(toks, stok{"eof", "", len(src)})
	return toks, nil
}

type specParser struct {
	toks []stok
	p    int
	src  string
}

func ParseSpec(src string) (e *Expr, err error) {
	toks, err := lexSpec(src)
	if err != nil {
		return nil, err
	}
	ps := &specParser{toks: toks, src: src}
	defer func() {
		if r := recover(); r != nil {
			if pe, ok := r.(parseErr); ok {
				err = fmt.Errorf("spec parse error: %s in %q", string(pe), src)
				return
			}
			panic(r)
		}
	}()
	e = ps.expr()
	if ps.peek().kind != "eof" {
		ps.fail("trailing input at '" + ps.peek().s + "'")
	}
	return e, nil
}

type parseErr string

func (ps *specParser) fail(m string) { panic(parseErr(fmt.Sprintf("%s (pos %d)", m, ps.peek().pos))) }
func (ps *specParser) peek() stok    { return ps.toks[ps.p] }
func (ps *specParser) next() stok    { t := ps.toks[ps.p]; ps.p++; return t }
func (ps *specParser) isOp(s string) bool {
	t := ps.peek()
	return t.kind == "op" && t.s == s
}
func (ps *specParser) accept(s string) bool {
	if ps.isOp(s) {
		ps.p++
		return true
	}
	return false
}
func (ps *specParser) expect(s string) {
	if !ps.accept(s) {
		ps.fail("expected '" + s + "' got '" + ps.peek().s + "'")
	}
}

func (ps *specParser) typ() *TypeExpr {
	if ps.accept("*") {
		return &TypeExpr{Star: true, Elem: ps.typ()}
	}
	if ps.accept("[") {
		if ps.accept("]") {
			return &TypeExpr{Slice: true, Elem: ps.typ()}
		}
		k := ps.typ()
		ps.expect("]")
		return &TypeExpr{Map: k, Elem: ps.typ()}
	}
	t := ps.next()
	if t.kind != "id" {
		ps.fail("expected type name")
	}
	if ps.isOp(".") && ps.toks[ps.p+1].kind == "id" {
		ps.p++
		n := ps.next()
		return &TypeExpr{Pkg: t.s, Name: n.s}
	}
	return &TypeExpr{Name: t.s}
}

func (ps *specParser) expr() *Expr {
	t := ps.peek()
	if t.kind == "id" && (t.s == "forall" || t.s == "exists") {
		ps.p++
		var bs []Binder
		for {
			var names []string
			for {
				n := ps.next()
				if n.kind != "id" {
					ps.fail("expected binder name")
				}
				names = append(names, n.s)
				if !ps.accept(",") {
					break
				}
			}
			ty := ps.typ()
			for _, n := range names {
				bs = append(bs, Binder{n, ty})
			}
			if !ps.accept(",") {
				break
			}
		}
		var pats [][]*Expr
		for ps.accept("{") {
			var grp []*Expr
			for {
				grp = append(grp, ps.iff())
				if !ps.accept(",") {
					break
				}
			}
			ps.expect("}")
			pats = append(pats, grp)
		}
		ps.expect("::")
		body := ps.expr()
		return &Expr{Op: t.s, Binders: bs, Args: []*Expr{body}, Pos: t.pos, Pats: pats}
	}
	return ps.iff()
}

func (ps *specParser) iff() *Expr {
	l := ps.imp()
	for ps.accept("<==>") {
		r := ps.imp()
		l = &Expr{Op: "<==>", Args: []*Expr{l, r}}
	}
	return l
}

func (ps *specParser) imp() *Expr {
	l := ps.or()
	if ps.accept("==>") {
		// right associative; allow a quantifier on the right
		var r *Expr
		t := ps.peek()
		if t.kind == "id" && (t.s == "forall" || t.s == "exists") {
			r = ps.expr()
		} else {
			r = ps.imp()
		}
		return &Expr{Op: "==>", Args: []*Expr{l, r}}
	}
	return l
}

func (ps *specParser) or() *Expr {
	l := ps.and()
	for ps.accept("||") {
		r := ps.and()
		l = &Expr{Op: "||", Args: []*Expr{l, r}}
	}
	return l
}

func (ps *specParser) and() *Expr {
	l := ps.cmp()
	for ps.accept("&&") {
		r := ps.cmp()
		l = &Expr{Op: "&&", Args: []*Expr{l, r}}
	}
	return l
}

func (ps *specParser) cmp() *Expr {
	l := ps.add()
	for _, op := range []string{"==", "!=", "<=", ">=", "<", ">"} {
		if ps.accept(op) {
			r := ps.add()
			return &Expr{Op: op, Args: []*Expr{l, r}}
		}
	}
	return l
}

func (ps *specParser) add() *Expr {
	l := ps.mul()
	for {
		switch {
		case ps.accept("+"):
			l = &Expr{Op: "+", Args: []*Expr{l, ps.mul()}}
		case ps.accept("-"):
			l = &Expr{Op: "-", Args: []*Expr{l, ps.mul()}}
		default:
			return l
		}
	}
}

func (ps *specParser) mul() *Expr {
	l := ps.unary()
	for {
		switch {
		case ps.accept("*"):
			l = &Expr{Op: "*", Args: []*Expr{l, ps.unary()}}
		case ps.accept("/"):
			l = &Expr{Op: "/", Args: []*Expr{l, ps.unary()}}
		case ps.accept("%"):
			l = &Expr{Op: "%", Args: []*Expr{l, ps.unary()}}
		default:
			return l
		}
	}
}

func (ps *specParser) unary() *Expr {
	if ps.accept("!") {
		return &Expr{Op: "!", Args: []*Expr{ps.unary()}}
	}
	if ps.accept("-") {
		return &Expr{Op: "neg", Args: []*Expr{ps.unary()}}
	}
	return ps.postfix()
}

func (ps *specParser) postfix() *Expr {
	e := ps.primary()
	for {
		switch {
		case ps.isOp(".") && ps.toks[ps.p+1].kind == "id":
			ps.p++
			n := ps.next()
			e = &Expr{Op: "sel", Name: n.s, Args: []*Expr{e}, Pos: n.pos}
		case ps.accept("["):
			i := ps.expr()
			ps.expect("]")
			e = &Expr{Op: "index", Args: []*Expr{e, i}}
		default:
			return e
		}
	}
}

func (ps *specParser) primary() *Expr {
	t := ps.next()
	switch t.kind {
	case "int":
		return &Expr{Op: "int", Name: t.s, Pos: t.pos}
	case "id":
		switch t.s {
		case "nil", "true", "false", "result":
			return &Expr{Op: t.s, Pos: t.pos}
		case "old", "now":
			ps.expect("(")
			a := ps.expr()
			ps.expect(")")
			return &Expr{Op: t.s, Args: []*Expr{a}, Pos: t.pos}
		case "cast":
			ps.expect("(")
			ty := ps.typ()
			ps.expect(",")
			a := ps.expr()
			ps.expect(")")
			return &Expr{Op: "cast", Typ: ty, Args: []*Expr{a}, Pos: t.pos}
		}
		if ps.accept("(") {
			var args []*Expr
			if !ps.accept(")") {
				for {
					args = append(args, ps.expr())
					if ps.accept(")") {
						break
					}
					ps.expect(",")
				}
			}
			if t.s == "ite" {
				if len(args) != 3 {
					ps.fail("ite needs 3 arguments")
				}
				return &Expr{Op: "ite", Args: args, Pos: t.pos}
			}
			return &Expr{Op: "call", Name: t.s, Args: args, Pos: t.pos}
		}
		return &Expr{Op: "ident", Name: t.s, Pos: t.pos}
	case "op":
		if t.s == "(" {
			e := ps.expr()
			ps.expect(")")
			return e
		}
	}
	ps.p--
	ps.fail("unexpected token '" + t.s + "'")
	return nil
}
