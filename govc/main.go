package main

import (
	"encoding/json"
	"flag"
	"fmt"
	"os"
	"path/filepath"
	"regexp"
	"sort"
	"strconv"
	"strings"
	"time"
)

const verifDir = "/verif"

type aggObl struct {
	Name      string      `json:"name"`
	Instances int         `json:"instances"`
	Trivial   int         `json:"trivially_true_instances,omitempty"`
	Result    string      `json:"result"` // discharged | refuted | undecided | cover-ok | vacuous
	Backend   string      `json:"backend,omitempty"`
	Ms        int64       `json:"ms"`
	Files     []string    `json:"-"`
	Bad       *Obligation `json:"-"`
}

type runResult struct {
	funcs     []string
	aggs      map[string]*aggObl
	errs      []string
	paths     int
	notes     []string
	trusted   []string
	solverMs  int64
	truncated []string
	g         *Gen
	allObls   []*Obligation
}

func repoDir() string {
	if d := os.Getenv("VERIF_REPO"); d != "" {
		return d
	}
	return "/repo"
}

func loadAll() (*Program, *ContractDB, error) {
	P, err := LoadProgram(repoDir())
	if err != nil {
		return nil, nil, err
	}
	db := NewContractDB()
	if err := db.LoadAll(repoDir(), filepath.Join(verifDir, "govc", "stdlib_contracts.txt")); err != nil {
		return P, db, err
	}
	return P, db, nil
}

// verifyFuncs generates and discharges the obligations of the named functions.
// onlyNames (optional): obligations with other names are generated but not sent to the solvers ("skipped").
var onlyNames map[string]bool

func verifyFuncs(P *Program, db *ContractDB, names []string, lemmas []string, workDir string, timeoutS, seed int) *runResult {
	g := NewGen(P, db)
	rr := &runResult{aggs: map[string]*aggObl{}, g: g}
	var all []*Obligation
	trusted := map[string]bool{}
	for _, n := range names {
		con := db.Funcs[n]
		fn := P.Funcs[strings.TrimSuffix(n, "@step")] // "f@step": thread-modular contract variant of f
		if con.Trusted {
			trusted[n] = true
			continue
		}
		if fn == nil {
			rr.errs = append(rr.errs, "contract for unknown function "+n)
			continue
		}
		rr.funcs = append(rr.funcs, n)
		tg := time.Now()
		vc := VerifyFunc(g, fn, con, 4000)
		if strings.HasSuffix(n, "@step") {
			vc.renameObligations(n)
		}
		if os.Getenv("GOVC_TIMING") != "" {
			fmt.Fprintf(os.Stderr, "gen %-50s %6.1fs paths=%d feas=%d pruned=%d obls=%d\n", n, time.Since(tg).Seconds(), vc.paths, vc.nFeas, vc.pruned, len(vc.obls))
		}
		rr.errs = append(rr.errs, vc.errs...)
		rr.paths += vc.paths
		if vc.truncated {
			rr.truncated = append(rr.truncated, n)
		}
		for cn, c := range vc.usedContracts {
			if c.Trusted {
				trusted[cn] = true
			}
		}
		for name, k := range vc.trivial {
			full := n + "#" + name
			a := rr.aggs[full]
			if a == nil {
				a = &aggObl{Name: full, Result: "discharged", Backend: "syntactic"}
				rr.aggs[full] = a
			}
			a.Trivial += k
			a.Instances += k
		}
		all = append(all, vc.obls...)
	}
	for _, ln := range lemmas {
		o, err := lemmaObligation(g, db, ln)
		if err != nil {
			rr.errs = append(rr.errs, err.Error())
			continue
		}
		all = append(all, o)
	}
	t0 := time.Now()
	if sub := os.Getenv("GOVC_ONLY"); sub != "" && onlyNames == nil {
		// developer filter: solve only obligations whose name contains the substring
		var sel []*Obligation
		for _, o := range all {
			if strings.Contains(o.Name, sub) {
				sel = append(sel, o)
			} else {
				o.Result = "skipped"
			}
		}
		Discharge(g, sel, workDir, timeoutS, seed, 16, false)
	} else if onlyNames != nil {
		var sel []*Obligation
		for _, o := range all {
			if onlyNames[o.Name] {
				sel = append(sel, o)
			} else {
				o.Result = "skipped"
			}
		}
		Discharge(g, sel, workDir, timeoutS, seed, 16, false)
	} else {
		Discharge(g, all, workDir, timeoutS, seed, 16, false)
	}
	rr.solverMs = time.Since(t0).Milliseconds()
	rr.allObls = all
	for _, o := range all {
		a := rr.aggs[o.Name]
		if a == nil {
			a = &aggObl{Name: o.Name, Result: "discharged"}
			rr.aggs[o.Name] = a
		}
		a.Instances++
		a.Ms += o.Ms
		if o.Cover {
			switch o.Result {
			case "sat":
				a.Result = "cover-ok"
			case "unsat":
				a.Result = "vacuous"
				a.Bad = o
			default:
				a.Result = "cover-unknown"
			}
			a.Backend = o.Solver
			continue
		}
		switch o.Result {
		case "skipped":
			if a.Result == "discharged" && a.Instances == 1+a.Trivial {
				a.Result = "skipped"
			}
		case "unsat":
			if a.Backend == "" || a.Backend == "syntactic" {
				a.Backend = o.Solver
			} else if !strings.Contains(a.Backend, o.Solver) {
				a.Backend += "," + o.Solver
			}
		case "sat":
			a.Result = "refuted"
			if a.Bad == nil || a.Bad.Result != "sat" {
				a.Bad = o
			}
		default:
			if a.Result != "refuted" {
				a.Result = "undecided"
				if a.Bad == nil {
					a.Bad = o
				}
			}
		}
	}
	for n := range g.notes {
		rr.notes = append(rr.notes, n)
	}
	sort.Strings(rr.notes)
	for n := range trusted {
		rr.trusted = append(rr.trusted, n)
	}
	sort.Strings(rr.trusted)
	return rr
}

func lemmaObligation(g *Gen, db *ContractDB, name string) (*Obligation, error) {
	ax := db.Axioms[name]
	if ax == nil {
		return nil, fmt.Errorf("unknown lemma %s", name)
	}
	st := &State{g: g, heaps: map[string]string{}, written: map[string]bool{}}
	env := st.specEnv(ax.Pkg, map[string]SV{})
	for _, u := range ax.Uses {
		if err := assumeAxiom(st, db, u); err != nil {
			return nil, err
		}
	}
	t, err := env.Bool(ax.E)
	if err != nil {
		return nil, fmt.Errorf("lemma %s: %v", name, err)
	}
	return &Obligation{Name: "lemma[" + name + "]", Func: "lemma", Kind: "lemma", NDecl: len(g.decls), PC: append([]string(nil), st.pc...), Goal: t, Info: ax.Src}, nil
}

func assumeAxiom(st *State, db *ContractDB, name string) error {
	ax := db.Axioms[name]
	if ax == nil {
		return fmt.Errorf("unknown axiom/lemma %s", name)
	}
	env := st.specEnv(ax.Pkg, map[string]SV{})
	t, err := env.Bool(ax.E)
	if err != nil {
		return fmt.Errorf("axiom %s: %v", name, err)
	}
	if st.vc != nil {
		st.axioms = append(st.axioms, axiomTerm{name: name, term: t, syms: ufunSyms(t)})
	} else {
		st.assume(t)
	}
	if !ax.IsLemma {
		st.g.note("axiom " + name + ": " + ax.Src)
	}
	return nil
}

var ufunRe = regexp.MustCompile(`\|U:[^|]+\|`)

func ufunSyms(t string) []string {
	seen := map[string]bool{}
	var out []string
	for _, m := range ufunRe.FindAllString(t, -1) {
		if !seen[m] {
			seen[m] = true
			out = append(out, m)
		}
	}
	return out
}

func cmdVC(args []string) int {
	fs := flag.NewFlagSet("vc", flag.ExitOnError)
	fn := fs.String("func", "", "short function name(s), comma separated (default: all with contracts)")
	to := fs.Int("timeout", 10, "solver timeout (s)")
	verbose := fs.Bool("v", false, "print every instance")
	keep := fs.Bool("keep", false, "keep SMT files")
	dbg := fs.Bool("debug", false, "re-panic on engine errors")
	fs.Parse(args)
	debugPanics = *dbg
	P, db, err := loadAll()
	if err != nil {
		fmt.Fprintln(os.Stderr, err)
		return 2
	}
	var names []string
	if *fn == "" {
		for _, n := range db.Order {
			names = append(names, n)
		}
	} else {
		for _, n := range strings.Split(*fn, ",") {
			if db.Funcs[n] == nil {
				// allow suffix match
				for _, c := range db.Order {
					if strings.HasSuffix(c, n) {
						n = c
						break
					}
				}
			}
			if db.Funcs[n] == nil {
				fmt.Fprintln(os.Stderr, "no contract for", n)
				return 2
			}
			names = append(names, n)
		}
	}
	work, _ := os.MkdirTemp("", "govc-vc-")
	if !*keep {
		defer os.RemoveAll(work)
	} else {
		fmt.Println("work dir:", work)
	}
	var lemmas []string
	if *fn == "" {
		for _, n := range sortedKeys(db.Axioms) {
			if db.Axioms[n].IsLemma {
				lemmas = append(lemmas, n)
			}
		}
	}
	rr := verifyFuncs(P, db, names, lemmas, work, *to, 0)
	for _, e := range rr.errs {
		fmt.Println("ERROR:", e)
	}
	bad := 0
	for _, n := range sortedKeys(rr.aggs) {
		a := rr.aggs[n]
		fmt.Printf("%-12s %4d inst %6d ms %-10s %s\n", a.Result, a.Instances, a.Ms, a.Backend, a.Name)
		if a.Result != "discharged" && a.Result != "cover-ok" {
			bad++
			if a.Bad != nil {
				fmt.Printf("      first failing instance: path %d [%s] result %s file %s\n      %s\n", a.Bad.Path, a.Bad.Log, a.Bad.Result, a.Bad.File, a.Bad.Info)
			}
		}
	}
	if *verbose {
		for _, o := range rr.allObls {
			fmt.Printf("  %-8s %5dms %-7s path=%d %s\n", o.Result, o.Ms, o.Solver, o.Path, o.Name)
		}
	}
	fmt.Printf("functions=%d paths=%d obligations=%d not-discharged=%d errors=%d solver-wall=%dms truncated=%v\n", len(rr.funcs), rr.paths, len(rr.aggs), bad, len(rr.errs), rr.solverMs, rr.truncated)
	for _, n := range rr.notes {
		fmt.Println("note:", n)
	}
	if bad > 0 || len(rr.errs) > 0 {
		return 1
	}
	return 0
}

func main() {
	if len(os.Args) < 2 {
		fmt.Println("usage: govc vc|check|claim|replay|list|ssa ...")
		os.Exit(2)
	}
	switch os.Args[1] {
	case "vc":
		os.Exit(cmdVC(os.Args[2:]))
	case "check":
		os.Exit(cmdCheck(os.Args[2:]))
	case "claim":
		os.Exit(cmdClaim(os.Args[2:]))
	case "replay":
		os.Exit(cmdReplay(os.Args[2:]))
	case "ssa":
		P, db, err := loadAll()
		if err != nil {
			fmt.Fprintln(os.Stderr, err)
		}
		_ = db
		for _, n := range os.Args[2:] {
			for _, k := range sortedKeys(P.Funcs) {
				if k == n || strings.HasSuffix(k, n) {
					fn := P.Funcs[k]
					vc := &FuncVC{fn: fn}
					if fn.Blocks != nil {
						vc.findLoops()
					}
					fmt.Printf("== %s  loops=%d\n", k, len(vc.loops))
					for _, l := range vc.loops {
						fmt.Printf("   loop %d header block %d\n", l.ord, l.header.Index)
					}
					fn.WriteTo(os.Stdout)
				}
			}
		}
	case "list":
		P, db, err := loadAll()
		if err != nil {
			fmt.Fprintln(os.Stderr, err)
			os.Exit(2)
		}
		for _, n := range db.Order {
			_, ok := P.Funcs[n]
			fmt.Printf("%-60s props=%v trusted=%v found=%v\n", n, db.Funcs[n].Props, db.Funcs[n].Trusted, ok)
		}
		if len(os.Args) > 2 && os.Args[2] == "-funcs" {
			for _, n := range sortedKeys(P.Funcs) {
				fmt.Println("  fn", n)
			}
		}
	default:
		fmt.Println("unknown command", os.Args[1])
		os.Exit(2)
	}
}

func atoiDef(s string, d int) int {
	if n, err := strconv.Atoi(s); err == nil {
		return n
	}
	return d
}

func writeJSON(path string, v interface{}) error {
	b, err := json.MarshalIndent(v, "", " ")
	if err != nil {
		return err
	}
	os.MkdirAll(filepath.Dir(path), 0o755)
	return os.WriteFile(path, append(b, '\n'), 0o644)
}
