package main

import (
	"fmt"

	"golang.org/x/tools/go/packages"
	"golang.org/x/tools/go/ssa"
	"golang.org/x/tools/go/ssa/ssautil"
)

var _ = packages.Load
var _ = ssautil.AllPackages
var _ ssa.Function

func main() { fmt.Println("govc") }
