package main

// Symbolic execution of SSA instructions (one path at a time).

import (
	"fmt"
	"go/constant"
	"go/token"
	"go/types"
	"strings"

	"golang.org/x/tools/go/ssa"
)

type Frame struct {
	fn        *ssa.Function
	regs      map[ssa.Value]Val
	caller    *Frame
	retBlk    *ssa.BasicBlock
	retIdx    int
	callVal   ssa.Value
	defers    []deferRec
	depth     int
	free      []Val // bindings of free variables (closures)
	results   []Val
	locals    map[string]Val // source-level variable name -> current value (top frame only)
	localT    map[string]types.Type
	localAddr map[string]SV        // address-taken locals: pointer to the cell
	localSrc  map[string]ssa.Value // SSA value currently bound to each local name
	addrSrc   map[string]ssa.Value
}

type deferRec struct {
	call *ssa.CallCommon
	args []Val
	fnv  Val
}

func (f *Frame) clone() *Frame {
	if f == nil {
		return nil
	}
	n := *f
	n.regs = make(map[ssa.Value]Val, len(f.regs))
	for k, v := range f.regs {
		n.regs[k] = v
	}
	n.defers = append([]deferRec(nil), f.defers...)
	if f.locals != nil {
		n.locals = make(map[string]Val, len(f.locals))
		for k, v := range f.locals {
			n.locals[k] = v
		}
		n.localT = make(map[string]types.Type, len(f.localT))
		for k, v := range f.localT {
			n.localT[k] = v
		}
		if f.localAddr != nil {
			n.localAddr = make(map[string]SV, len(f.localAddr))
			for k, v := range f.localAddr {
				n.localAddr[k] = v
			}
		}
		n.localSrc = make(map[string]ssa.Value, len(f.localSrc))
		for k, v := range f.localSrc {
			n.localSrc[k] = v
		}
		n.addrSrc = make(map[string]ssa.Value, len(f.addrSrc))
		for k, v := range f.addrSrc {
			n.addrSrc[k] = v
		}
	}
	n.caller = f.caller.clone()
	return &n
}

func (g *Gen) internString(s string) string {
	if id, ok := g.strs[s]; ok {
		return fmt.Sprint(id)
	}
	id := len(g.strs) + 1
	g.strs[s] = id
	return fmt.Sprint(id)
}

func (g *Gen) globalAddr(gl *ssa.Global) string {
	n := sym("G:" + gl.Pkg.Pkg.Name() + "." + gl.Name())
	g.declare(n, fmt.Sprintf("(declare-const %s Int)", n))
	return n
}

// globalPtr: package-level variables of scalar type live in their own one-cell heaps ("G.pkg.name"), so that
// writes through slices or pointers can never alias them; struct-typed globals are objects at a fixed address.
func (st *State) globalPtr(x *ssa.Global) Val {
	a := st.g.globalAddr(x)
	st.assume(fmt.Sprintf("(> %s 0)", a))
	elem := x.Type().(*types.Pointer).Elem()
	p := st.ptrTo(elem, a)
	if p.K == KLoc && p.Loc.Heap != "mem.flatarr" && p.Loc.Heap != "mem.slice" {
		p.Loc = &Loc{Heap: "G." + x.Pkg.Pkg.Name() + "." + x.Name(), Idx: "0", Addr: a, Typ: elem}
	}
	return p
}

func (g *Gen) funcID(fn *ssa.Function) string {
	n := sym("F:" + ShortName(fn))
	g.declare(n, fmt.Sprintf("(declare-const %s Int)", n))
	return n
}

// ptrTo builds the pointer value for address a of an object of type elem.
func (st *State) ptrTo(elem types.Type, a string) Val {
	switch u := elem.Underlying().(type) {
	case *types.Struct:
		return IntV(a)
	case *types.Slice:
		return Val{K: KLoc, Loc: &Loc{Heap: "mem.slice", Idx: a, Addr: a, Typ: elem}}
	case *types.Array:
		// standalone arrays are flat: element i lives in mem.<key> at a + i*size (same view as a slice of it)
		_ = u
		return Val{K: KLoc, Loc: &Loc{Heap: "mem.flatarr", Idx: a, Addr: a, Typ: elem}}
	}
	return Val{K: KLoc, Loc: &Loc{Heap: "mem." + memKey(elem), Idx: a, Addr: a, Typ: elem}}
}

func (st *State) asLoc(v Val, elem types.Type) *Loc {
	if v.K == KLoc {
		return v.Loc
	}
	return st.ptrTo(elem, v.T).Loc
}

func (st *State) val(v ssa.Value) Val {
	switch x := v.(type) {
	case *ssa.Const:
		return st.constVal(x)
	case *ssa.Global:
		return st.globalPtr(x)
	case *ssa.Function:
		return Val{K: KInt, T: st.g.funcID(x), Clo: &Closure{Fn: x}}
	case *ssa.FreeVar:
		for i, fv := range st.fr.fn.FreeVars {
			if fv == x {
				return st.fr.free[i]
			}
		}
		panic("free var not found: " + x.Name())
	case *ssa.Builtin:
		return IntV("0")
	}
	if r, ok := st.fr.regs[v]; ok {
		return r
	}
	panic(fmt.Sprintf("no value for %s (%T) in %s", v.Name(), v, st.fr.fn.Name()))
}

func (st *State) constVal(c *ssa.Const) Val {
	t := c.Type()
	if c.Value == nil {
		return st.zero(t)
	}
	switch c.Value.Kind() {
	case constant.Bool:
		if constant.BoolVal(c.Value) {
			return BoolV("true")
		}
		return BoolV("false")
	case constant.Int:
		s := c.Value.ExactString()
		if strings.HasPrefix(s, "-") {
			return IntV("(- " + s[1:] + ")")
		}
		return IntV(s)
	case constant.String:
		return IntV(st.g.internString(constant.StringVal(c.Value)))
	case constant.Float:
		if isInteger(t) {
			i, _ := constant.Int64Val(constant.ToInt(c.Value))
			return IntV(smtInt(i))
		}
		n := sym("flt:" + c.Value.ExactString())
		st.g.declare(n, fmt.Sprintf("(declare-const %s Int)", n))
		return IntV(n)
	}
	return st.freshVal(t, "const")
}

// wrap reduces a mathematical result to the Go type's range (two's complement). 64-bit signed arithmetic is left
// mathematical (assumption: no signed 64-bit overflow).
func wrap(t types.Type, term string) string {
	if !isInteger(t) {
		return term
	}
	n := intBits(t)
	if isUnsigned(t) {
		return fmt.Sprintf("(mod %s %s)", term, pow2(n))
	}
	if n == 64 {
		return term
	}
	return fmt.Sprintf("(- (mod (+ %s %s) %s) %s)", term, pow2(n-1), pow2(n), pow2(n-1))
}

func isConstInt(v ssa.Value) (int64, bool) {
	if c, ok := v.(*ssa.Const); ok && c.Value != nil && c.Value.Kind() == constant.Int {
		if i, ok := constant.Int64Val(c.Value); ok {
			return i, true
		}
		if u, ok := constant.Uint64Val(c.Value); ok && u == 1<<63 {
			return -1 << 63, true // marker for bit 63
		}
	}
	return 0, false
}

func isPow2(x int64) (int, bool) {
	if x == -1<<63 {
		return 63, true
	}
	if x <= 0 {
		return 0, false
	}
	for k := 0; k < 63; k++ {
		if x == 1<<uint(k) {
			return k, true
		}
	}
	return 0, false
}

func (st *State) ufun(name string, nargs int, ret string) string {
	n := sym(name)
	args := strings.TrimSpace(strings.Repeat("Int ", nargs))
	st.g.declare(n, fmt.Sprintf("(declare-fun %s (%s) %s)", n, args, ret))
	return n
}

func (st *State) binop(op token.Token, x, y Val, xt, yt, rt types.Type, xv, yv ssa.Value) Val {
	a, b := x.T, y.T
	switch op {
	case token.EQL, token.NEQ:
		x, y = st.toScalar(x), st.toScalar(y)
		e := eqVals(x, y)
		if isFloat(xt) {
			e = st.g.fresh("fcmp", "Bool")
		}
		if op == token.NEQ {
			return BoolV(not(e))
		}
		return BoolV(e)
	case token.LSS, token.LEQ, token.GTR, token.GEQ:
		if isFloat(xt) {
			return BoolV(st.g.fresh("fcmp", "Bool"))
		}
		if b, ok := xt.Underlying().(*types.Basic); ok && b.Info()&types.IsString != 0 {
			return BoolV(st.g.fresh("scmp", "Bool"))
		}
		m := map[token.Token]string{token.LSS: "<", token.LEQ: "<=", token.GTR: ">", token.GEQ: ">="}
		return BoolV(fmt.Sprintf("(%s %s %s)", m[op], a, b))
	}
	if isFloat(rt) {
		return IntV(st.g.fresh("flt", "Int"))
	}
	if bt, ok := rt.Underlying().(*types.Basic); ok && bt.Info()&types.IsString != 0 {
		return IntV(st.g.fresh("str", "Int"))
	}
	if isBool(rt) {
		switch op {
		case token.AND, token.LAND:
			return BoolV(and(a, b))
		case token.OR, token.LOR:
			return BoolV(fmt.Sprintf("(or %s %s)", a, b))
		}
	}
	bits := intBits(rt)
	switch op {
	case token.ADD:
		return IntV(wrap(rt, fmt.Sprintf("(+ %s %s)", a, b)))
	case token.SUB:
		return IntV(wrap(rt, fmt.Sprintf("(- %s %s)", a, b)))
	case token.MUL:
		return IntV(wrap(rt, fmt.Sprintf("(* %s %s)", a, b)))
	case token.QUO:
		if isUnsigned(rt) {
			return IntV(fmt.Sprintf("(div %s %s)", a, b))
		}
		// truncated division
		return IntV(fmt.Sprintf("(ite (>= %s 0) (div %s %s) (- (div (- %s) %s)))", a, a, b, a, b))
	case token.REM:
		if isUnsigned(rt) {
			return IntV(fmt.Sprintf("(mod %s %s)", a, b))
		}
		return IntV(fmt.Sprintf("(ite (>= %s 0) (mod %s %s) (- (mod (- %s) %s)))", a, a, b, a, b))
	case token.SHL:
		if k, ok := isConstInt(yv); ok && k >= 0 && k < 64 {
			return IntV(wrap(rt, fmt.Sprintf("(* %s %s)", a, pow2(int(k)))))
		}
	case token.SHR:
		if k, ok := isConstInt(yv); ok && k >= 0 && k < 64 && isUnsigned(rt) {
			return IntV(fmt.Sprintf("(div %s %s)", a, pow2(int(k))))
		}
	case token.AND:
		// x & (2^k-1)  = x mod 2^k ; x & 2^k = bit test (also valid for two's-complement signed values:
		// SMT div/mod are floor/non-negative, matching arithmetic shift and masking)
		{
			for _, sw := range []struct {
				c ssa.Value
				o string
			}{{yv, a}, {xv, b}} {
				if m, ok := isConstInt(sw.c); ok {
					if k, ok := isPow2(m + 1); ok && m != -1<<63 {
						return IntV(fmt.Sprintf("(mod %s %s)", sw.o, pow2(k)))
					}
					if k, ok := isPow2(m); ok {
						return IntV(fmt.Sprintf("(* (mod (div %s %s) 2) %s)", sw.o, pow2(k), pow2(k)))
					}
				}
			}
			// x & ^(2^k): clear bit k  (SSA shows the complement as a constant)
			if c, ok := yv.(*ssa.Const); ok && c.Value != nil && isUnsigned(rt) {
				if u, ok := constant.Uint64Val(c.Value); ok {
					inv := ^u
					if bits < 64 {
						inv &= (1 << uint(bits)) - 1
					}
					if inv != 0 && inv&(inv-1) == 0 {
						k := 0
						for inv>>uint(k) != 1 {
							k++
						}
						return IntV(fmt.Sprintf("(- %s (* (mod (div %s %s) 2) %s))", a, a, pow2(k), pow2(k)))
					}
				}
			}
		}
	case token.OR:
		if isUnsigned(rt) {
			for _, sw := range []struct {
				c ssa.Value
				o string
			}{{yv, a}, {xv, b}} {
				if m, ok := isConstInt(sw.c); ok {
					if k, ok := isPow2(m); ok {
						return IntV(fmt.Sprintf("(+ %s (* (- 1 (mod (div %s %s) 2)) %s))", sw.o, sw.o, pow2(k), pow2(k)))
					}
					if k, ok := isPow2(m + 1); ok && m != -1<<63 {
						// x | (2^k-1): set low k bits
						return IntV(fmt.Sprintf("(+ (- %s (mod %s %s)) %d)", sw.o, sw.o, pow2(k), m))
					}
				}
			}
		}
	case token.AND_NOT:
		if m, ok := isConstInt(yv); ok && isUnsigned(rt) {
			if k, ok := isPow2(m); ok {
				return IntV(fmt.Sprintf("(- %s (* (mod (div %s %s) 2) %s))", a, a, pow2(k), pow2(k)))
			}
		}
	case token.XOR:
		f := st.ufun(fmt.Sprintf("U:xor%d", bits), 2, "Int")
		r := fmt.Sprintf("(%s %s %s)", f, a, b)
		st.assumeRange(rt, r)
		return IntV(r)
	}
	// uninterpreted bit operation
	f := st.ufun(fmt.Sprintf("bitop.%s.%d", op.String(), bits), 2, "Int")
	st.g.note("bit operation " + op.String() + " with non-constant mask treated as uninterpreted")
	r := fmt.Sprintf("(%s %s %s)", f, a, b)
	st.assumeRange(rt, r)
	return IntV(r)
}

func (st *State) convert(v Val, from, to types.Type) Val {
	fu, tu := from.Underlying(), to.Underlying()
	if isInteger(to) && isInteger(from) {
		// widening within same signedness or unsigned->wider signed: identity
		fb, tb := intBits(from), intBits(to)
		if isUnsigned(from) == isUnsigned(to) && tb >= fb {
			return v
		}
		if isUnsigned(from) && !isUnsigned(to) && tb > fb {
			return v
		}
		if !isUnsigned(to) && tb == 64 {
			if isUnsigned(from) && fb == 64 {
				// uint64 -> int64: values below 2^63 unchanged (assumption otherwise)
				return IntV(fmt.Sprintf("(ite (< %s %s) %s (- %s %s))", v.T, pow2(63), v.T, v.T, pow2(64)))
			}
			return v
		}
		return IntV(wrap(to, v.T))
	}
	if isInteger(to) && isFloat(from) || isFloat(to) {
		return IntV(st.g.fresh("conv", "Int"))
	}
	// pointer <-> unsafe.Pointer <-> uintptr
	if v.K == KLoc {
		if p, ok := tu.(*types.Pointer); ok {
			if types.Identical(p.Elem(), v.Loc.Typ) {
				return v
			}
		}
		return st.toScalar(v)
	}
	if _, ok := tu.(*types.Slice); ok {
		if _, ok := fu.(*types.Slice); ok {
			return v
		}
		if b, ok := fu.(*types.Basic); ok && b.Info()&types.IsString != 0 {
			return st.freshVal(to, "str2bytes")
		}
	}
	if b, ok := tu.(*types.Basic); ok && b.Info()&types.IsString != 0 {
		return IntV(st.g.fresh("tostr", "Int"))
	}
	return v
}

// oblige records a proof obligation on the current path.
func (st *State) oblige(name, goal string, info string) {
	if st.dry != nil || st.dead {
		return
	}
	if goal == "true" {
		st.vc.addTrivial(name)
		return
	}
	st.vc.addObligation(name, st, goal, info)
}

func (st *State) nilCheck(term string, what string) {
	if term == "" {
		return
	}
	name := "nopanic[nil]"
	if strings.HasPrefix(what, "field ") {
		name = "nopanic[nil:" + strings.TrimPrefix(what, "field ") + "]"
	}
	st.oblige(name, fmt.Sprintf("(not (= %s 0))", term), what)
	st.assume(fmt.Sprintf("(not (= %s 0))", term))
}

func (st *State) boundsCheck(i, n string, what string) {
	g := fmt.Sprintf("(and (<= 0 %s) (< %s %s))", i, i, n)
	name := "nopanic[bounds]"
	if k := strings.Index(what, ":"); k >= 0 {
		name = "nopanic[bounds:" + what[k+1:] + "]"
	}
	st.oblige(name, g, what)
	st.assume(g)
}

// valueName: a stable source-level name for the slice/array being indexed (variable, field), or "".
func valueName(v ssa.Value) string {
	switch x := v.(type) {
	case *ssa.UnOp:
		return valueName(x.X)
	case *ssa.Alloc:
		return x.Comment
	case *ssa.FieldAddr:
		if st, ok := x.X.Type().Underlying().(*types.Pointer).Elem().Underlying().(*types.Struct); ok {
			return st.Field(x.Field).Name()
		}
	case *ssa.Field:
		if st, ok := x.X.Type().Underlying().(*types.Struct); ok {
			return st.Field(x.Field).Name()
		}
	case *ssa.Parameter:
		return x.Name()
	case *ssa.FreeVar:
		return x.Name()
	case *ssa.Phi:
		return x.Comment
	case *ssa.Slice:
		return valueName(x.X)
	}
	return ""
}

func (st *State) derefLoad(p Val, elem types.Type) Val {
	if p.K == KLoc {
		l := p.Loc
		switch u := l.Typ.Underlying().(type) {
		case *types.Slice:
			return st.loadSliceFrom(l.Heap, l.Idx)
		case *types.Array:
			es := elemSort(u.Elem())
			h := st.cur(l.Heap, "(Array Int (Array Int "+es+"))")
			return Val{K: KArr, T: fmt.Sprintf("(select %s %s)", h, l.Idx), Elem: es}
		}
		return st.loadLoc(l)
	}
	return st.loadAt(elem, p.T)
}

func (st *State) derefStore(p Val, elem types.Type, v Val) {
	if p.K == KLoc {
		l := p.Loc
		switch u := l.Typ.Underlying().(type) {
		case *types.Slice:
			st.storeSliceTo(l.Heap, l.Idx, v)
			return
		case *types.Array:
			sort := "(Array Int (Array Int " + elemSort(u.Elem()) + "))"
			h := st.cur(l.Heap, sort)
			st.setHeap(l.Heap, sort, fmt.Sprintf("(store %s %s %s)", h, l.Idx, v.T))
			return
		}
		st.storeLoc(l, st.toScalar(v))
		return
	}
	st.storeAt(elem, p.T, v)
}

// execInstr executes a non-control instruction. Calls are handled by the driver.
func (st *State) execInstr(in ssa.Instruction) {
	switch x := in.(type) {
	case *ssa.DebugRef:
	case *ssa.Alloc:
		elem := x.Type().(*types.Pointer).Elem()
		a := st.alloc("alloc."+x.Comment, fmt.Sprint(st.g.P.sizeof(elem)))
		p := st.ptrTo(elem, a)
		if arr, isArr := elem.Underlying().(*types.Array); isArr {
			st.zeroRegion(arr.Elem(), a, fmt.Sprint(arr.Len()))
			st.fr.regs[x] = p
			break
		}
		st.derefStore(p, elem, st.zero(elem))
		if p.K == KLoc {
			delete(st.written, p.Loc.Heap)
		}
		st.fr.regs[x] = p
	case *ssa.FieldAddr:
		base := st.val(x.X)
		pt := x.X.Type().Underlying().(*types.Pointer).Elem()
		s := pt.Underlying().(*types.Struct)
		st.nilCheck(base.T, "field "+s.Field(x.Field).Name())
		st.fr.regs[x] = st.fieldAddr(pt, s, x.Field, base.T)
	case *ssa.Field:
		st.fr.regs[x] = st.val(x.X).Fs[x.Field]
	case *ssa.IndexAddr:
		xv := st.val(x.X)
		iv := st.val(x.Index)
		switch u := x.X.Type().Underlying().(type) {
		case *types.Slice:
			st.boundsCheck(iv.T, xv.Fs[1].T, "slice index:"+valueName(x.X))
			sz := st.g.P.sizeof(u.Elem())
			a := st.g.elemAddr(xv.Fs[0].T, iv.T, sz)
			st.fr.regs[x] = st.ptrTo(u.Elem(), a)
		case *types.Pointer:
			arr := u.Elem().Underlying().(*types.Array)
			st.boundsCheck(iv.T, fmt.Sprint(arr.Len()), "array index:"+valueName(x.X))
			l := st.asLoc(xv, u.Elem())
			sz := st.g.P.sizeof(arr.Elem())
			if l.Heap == "mem.flatarr" {
				a := st.g.elemAddr(l.Addr, iv.T, sz)
				st.fr.regs[x] = st.ptrTo(arr.Elem(), a)
				break
			}
			addr := ""
			if l.Addr != "" {
				addr = fmt.Sprintf("(+ %s (* %s %d))", l.Addr, iv.T, sz)
			}
			st.fr.regs[x] = Val{K: KLoc, Loc: &Loc{Heap: l.Heap, Idx: l.Idx, Sub: iv.T, Addr: addr, Typ: arr.Elem()}}
		default:
			panic("IndexAddr on " + x.X.Type().String())
		}
	case *ssa.Index:
		xv := st.val(x.X)
		iv := st.val(x.Index)
		if xv.K == KArr {
			st.fr.regs[x] = st.scalar(x.Type(), fmt.Sprintf("(select %s %s)", xv.T, iv.T))
		} else {
			st.fr.regs[x] = st.freshVal(x.Type(), "index")
		}
	case *ssa.UnOp:
		st.fr.regs[x] = st.unop(x)
	case *ssa.BinOp:
		st.fr.regs[x] = st.binop(x.Op, st.val(x.X), st.val(x.Y), x.X.Type(), x.Y.Type(), x.Type(), x.X, x.Y)
	case *ssa.Convert:
		st.fr.regs[x] = st.convert(st.val(x.X), x.X.Type(), x.Type())
	case *ssa.ChangeType:
		st.fr.regs[x] = st.val(x.X)
	case *ssa.ChangeInterface:
		st.fr.regs[x] = st.val(x.X)
	case *ssa.MakeInterface:
		v := st.val(x.X)
		switch x.X.Type().Underlying().(type) {
		case *types.Pointer, *types.Signature, *types.Chan, *types.Map, *types.Interface:
			st.fr.regs[x] = st.toScalar(v)
		default:
			b := st.alloc("box", "8")
			st.storeAt(x.X.Type(), b, v)
			st.fr.regs[x] = IntV(b)
		}
	case *ssa.TypeAssert:
		v := st.val(x.X)
		var r Val
		switch x.AssertedType.Underlying().(type) {
		case *types.Pointer, *types.Signature, *types.Chan, *types.Map, *types.Interface:
			r = v
		default:
			r = st.loadAt(x.AssertedType, v.T)
		}
		st.g.note("type assertions are assumed to succeed (dynamic type tags are not modelled)")
		if x.CommaOk {
			st.fr.regs[x] = Val{K: KTuple, Fs: []Val{r, BoolV(st.g.fresh("assertok", "Bool"))}}
		} else {
			st.fr.regs[x] = r
		}
	case *ssa.Extract:
		st.fr.regs[x] = st.val(x.Tuple).Fs[x.Index]
	case *ssa.MakeClosure:
		fn := x.Fn.(*ssa.Function)
		var binds []Val
		for _, b := range x.Bindings {
			binds = append(binds, st.val(b))
		}
		id := st.g.fresh("closure."+fn.Name(), "Int")
		st.assume(fmt.Sprintf("(> %s 0)", id))
		st.fr.regs[x] = Val{K: KInt, T: id, Clo: &Closure{Fn: fn, Binds: binds}}
	case *ssa.MakeSlice:
		t := x.Type().Underlying().(*types.Slice)
		ln := st.val(x.Len)
		cp := st.val(x.Cap)
		g := fmt.Sprintf("(and (<= 0 %s) (<= %s %s))", ln.T, ln.T, cp.T)
		st.oblige("nopanic[makeslice]", g, "make len/cap")
		st.assume(g)
		a := st.alloc("make", fmt.Sprintf("(* %s %d)", cp.T, st.g.P.sizeof(t.Elem())))
		st.zeroRegion(t.Elem(), a, cp.T)
		st.fr.regs[x] = Val{K: KSlice, Fs: []Val{IntV(a), ln, cp}}
	case *ssa.MakeMap:
		m := st.alloc("map", "8")
		mt := x.Type().Underlying().(*types.Map)
		hn, _ := mapHeaps(mt)
		has := st.cur(hn+"#has", "(Array Int (Array Int Bool))")
		st.assume(fmt.Sprintf("(= (select %s %s) ((as const (Array Int Bool)) false))", has, m))
		st.fr.regs[x] = IntV(m)
	case *ssa.MakeChan:
		c := st.alloc("chan", "8")
		h := st.cur("chan.cap", "(Array Int Int)")
		st.assume(fmt.Sprintf("(= (select %s %s) %s)", h, c, st.val(x.Size).T))
		st.fr.regs[x] = IntV(c)
	case *ssa.Slice:
		st.fr.regs[x] = st.sliceOp(x)
	case *ssa.Lookup:
		st.fr.regs[x] = st.lookup(x)
	case *ssa.MapUpdate:
		st.mapUpdate(x)
	case *ssa.Store:
		elem := x.Addr.Type().Underlying().(*types.Pointer).Elem()
		p := st.val(x.Addr)
		if p.K == KInt {
			st.nilCheck(p.T, "store")
		}
		var before map[string]string
		spill := false
		if prm, ok := x.Val.(*ssa.Parameter); ok && st.fr.caller == nil && st.old != nil {
			if al, ok := x.Addr.(*ssa.Alloc); ok && al.Comment == prm.Name() && x.Block().Index == 0 {
				// a parameter spilled to its cell at entry (captured by a closure): the cell holds the
				// parameter's value in the pre-state too, so old(w.f) reads w rather than an uninitialised cell
				spill = true
				before = make(map[string]string, len(st.heaps))
				for k, v := range st.heaps {
					before[k] = v
				}
			}
		}
		st.derefStore(p, elem, st.val(x.Val))
		if spill {
			for k, v := range st.heaps {
				if before[k] != v { // differs from the entry heap only at fresh cells (above the entry watermark)
					st.old[k] = v
				}
			}
		}
	case *ssa.Send:
		st.g.note("channel sends are not executed (channel contracts / fork-join abstraction)")
	case *ssa.Go:
		st.g.note("go statements are not executed (fork-join abstraction); the spawned closure is verified separately")
	case *ssa.Select:
		st.fr.regs[x] = st.freshVal(x.Type(), "select")
		st.g.note("select is abstracted to a nondeterministic choice with unconstrained received values")
	case *ssa.Range, *ssa.Next:
		st.fr.regs[in.(ssa.Value)] = st.freshVal(in.(ssa.Value).Type(), "range")
		st.g.note("range over map/string abstracted to unconstrained values")
	case *ssa.Defer:
		var args []Val
		for _, a := range x.Call.Args {
			args = append(args, st.val(a))
		}
		rec := deferRec{call: &x.Call, args: args}
		if !x.Call.IsInvoke() {
			rec.fnv = st.val(x.Call.Value)
		} else {
			rec.fnv = st.val(x.Call.Value)
		}
		st.fr.defers = append(st.fr.defers, rec)
	default:
		panic(fmt.Sprintf("unsupported instruction %T: %s", in, in))
	}
}

func (st *State) zeroRegion(elem types.Type, a string, n string) {
	switch elem.Underlying().(type) {
	case *types.Struct, *types.Slice, *types.Array:
		st.g.note("make([]T) of composite element type: elements not assumed zero")
		return
	}
	l := &Loc{Heap: "mem." + memKey(elem), Typ: elem}
	h := st.cur(l.Heap, locSort(l))
	z := st.zero(elem).T
	sz := st.g.P.sizeof(elem)
	st.assume(fmt.Sprintf("(forall ((za Int)) (! (=> (and (<= %s za) (< za (+ %s %s))) (= (select %s za) %s)) :pattern ((select %s za))))", a, a, mulC(n, sz), h, z, h))
}

func (st *State) unop(x *ssa.UnOp) Val {
	v := st.val(x.X)
	switch x.Op {
	case token.MUL:
		elem := x.X.Type().Underlying().(*types.Pointer).Elem()
		if v.K == KInt {
			st.nilCheck(v.T, "load")
		}
		return st.derefLoad(v, elem)
	case token.NOT:
		return BoolV(not(v.T))
	case token.SUB:
		if isFloat(x.Type()) {
			return IntV(st.g.fresh("flt", "Int"))
		}
		return IntV(wrap(x.Type(), fmt.Sprintf("(- %s)", v.T)))
	case token.XOR:
		if isUnsigned(x.Type()) {
			return IntV(fmt.Sprintf("(- (- %s 1) %s)", pow2(intBits(x.Type())), v.T))
		}
		return IntV(fmt.Sprintf("(- (- %s) 1)", v.T))
	case token.ARROW:
		st.g.note("channel receive yields an unconstrained value")
		if x.CommaOk {
			return Val{K: KTuple, Fs: []Val{st.freshVal(x.Type().(*types.Tuple).At(0).Type(), "recv"), BoolV(st.g.fresh("recvok", "Bool"))}}
		}
		return st.freshVal(x.Type(), "recv")
	}
	panic("unop " + x.Op.String())
}

func (st *State) sliceOp(x *ssa.Slice) Val {
	xv := st.val(x.X)
	var ptr, ln, cp string
	var elem types.Type
	switch u := x.X.Type().Underlying().(type) {
	case *types.Slice:
		ptr, ln, cp = xv.Fs[0].T, xv.Fs[1].T, xv.Fs[2].T
		elem = u.Elem()
	case *types.Pointer:
		arr := u.Elem().Underlying().(*types.Array)
		l := st.asLoc(xv, u.Elem())
		ptr = l.Addr
		if ptr == "" {
			ptr = st.g.fresh("arrptr", "Int")
		}
		if l.Heap != "mem.flatarr" {
			st.g.note("slicing an array-typed struct field: the slice aliases a flat copy of the array (views not unified)")
		}
		ln, cp = fmt.Sprint(arr.Len()), fmt.Sprint(arr.Len())
		elem = arr.Elem()
	case *types.Basic: // string
		return IntV(st.g.fresh("substr", "Int"))
	}
	lo, hi, mx := "0", ln, cp
	if x.Low != nil {
		lo = st.val(x.Low).T
	}
	if x.High != nil {
		hi = st.val(x.High).T
	} else if _, isSlice := x.X.Type().Underlying().(*types.Slice); isSlice {
		hi = ln
	}
	if x.Max != nil {
		mx = st.val(x.Max).T
	}
	g := fmt.Sprintf("(and (<= 0 %s) (<= %s %s) (<= %s %s) (<= %s %s))", lo, lo, hi, hi, mx, mx, cp)
	st.oblige("nopanic[bounds]", g, "slice expression")
	st.assume(g)
	sz := st.g.P.sizeof(elem)
	np := ptr
	if lo != "0" {
		np = fmt.Sprintf("(+ %s %s)", ptr, mulC(lo, sz))
	}
	nl := fmt.Sprintf("(- %s %s)", hi, lo)
	if lo == "0" {
		nl = hi
	}
	nc := fmt.Sprintf("(- %s %s)", mx, lo)
	if lo == "0" {
		nc = mx
	}
	return Val{K: KSlice, Fs: []Val{IntV(np), IntV(nl), IntV(nc)}}
}

// mapHeaps returns the base heap name of a map type and its value type.
func mapHeaps(mt *types.Map) (string, types.Type) {
	return "map." + memKey(mt.Key()) + "." + shortenPaths(mt.Elem().String()), mt.Elem()
}

func (st *State) mapGet(mt *types.Map, m, k string) (Val, string) {
	return st.mapGet2(mt, m, k, true)
}

// mapGet2: withDefault=false returns the raw stored value (unspecified for absent keys); used by specs, which
// always guard reads with has().
func (st *State) mapGet2(mt *types.Map, m, k string, withDefault bool) (Val, string) {
	hn, vt := mapHeaps(mt)
	has := st.cur(hn+"#has", "(Array Int (Array Int Bool))")
	present := fmt.Sprintf("(select (select %s %s) %s)", has, m, k)
	var v Val
	if _, ok := vt.Underlying().(*types.Slice); ok {
		var fs []Val
		for _, suf := range []string{"#ptr", "#len", "#cap"} {
			h := st.cur(hn+suf, "(Array Int (Array Int Int))")
			raw := fmt.Sprintf("(select (select %s %s) %s)", h, m, k)
			if withDefault {
				raw = ite(present, raw, "0")
			}
			fs = append(fs, IntV(raw))
		}
		st.assume(fmt.Sprintf("(and (<= 0 %s) (<= %s %s))", fs[1].T, fs[1].T, fs[2].T))
		v = Val{K: KSlice, Fs: fs}
	} else {
		es := elemSort(vt)
		h := st.cur(hn+"#val", "(Array Int (Array Int "+es+"))")
		raw := fmt.Sprintf("(select (select %s %s) %s)", h, m, k)
		v = st.scalar(vt, raw)
		if withDefault {
			v.T = ite(present, raw, st.zero(vt).T)
		}
	}
	return v, present
}

func (st *State) lookup(x *ssa.Lookup) Val {
	mt, ok := x.X.Type().Underlying().(*types.Map)
	if !ok {
		return st.freshVal(x.Type(), "strindex")
	}
	m := st.val(x.X)
	k := st.toScalar(st.val(x.Index))
	v, present := st.mapGet(mt, m.T, k.T)
	if x.CommaOk {
		return Val{K: KTuple, Fs: []Val{v, BoolV(present)}}
	}
	return v
}

func (st *State) mapSet(mt *types.Map, m, k string, v Val, present bool) {
	hn, vt := mapHeaps(mt)
	sortB := "(Array Int (Array Int Bool))"
	has := st.cur(hn+"#has", sortB)
	pv := "true"
	if !present {
		pv = "false"
	}
	st.setHeap(hn+"#has", sortB, fmt.Sprintf("(store %s %s (store (select %s %s) %s %s))", has, m, has, m, k, pv))
	if !present {
		return
	}
	if _, ok := vt.Underlying().(*types.Slice); ok {
		for i, suf := range []string{"#ptr", "#len", "#cap"} {
			sort := "(Array Int (Array Int Int))"
			h := st.cur(hn+suf, sort)
			st.setHeap(hn+suf, sort, fmt.Sprintf("(store %s %s (store (select %s %s) %s %s))", h, m, h, m, k, v.Fs[i].T))
		}
		return
	}
	sort := "(Array Int (Array Int " + elemSort(vt) + "))"
	h := st.cur(hn+"#val", sort)
	st.setHeap(hn+"#val", sort, fmt.Sprintf("(store %s %s (store (select %s %s) %s %s))", h, m, h, m, k, st.toScalar(v).T))
}

func (st *State) mapUpdate(x *ssa.MapUpdate) {
	mt := x.Map.Type().Underlying().(*types.Map)
	m := st.val(x.Map)
	st.nilCheck(m.T, "map update")
	st.mapSet(mt, m.T, st.toScalar(st.val(x.Key)).T, st.val(x.Value), true)
}
