package main

// Symbolic values and the heap model.
//
// Memory model (typed heap, flat addresses):
//   - a reference is an SMT Int (0 = nil); the address of an embedded struct is base+byte offset (gc/amd64 layout);
//   - one SMT array per struct field ("pkg.T.f" : Array Int S), indexed by the address of the struct;
//   - values that live in slices or standalone cells are in per-element-type heaps "mem.<key>" indexed by address
//     (slice element i of []T is at ptr + i*sizeof(T); struct elements use the field heaps at that address);
//   - array-typed fields are (Array Int (Array Int S)); maps are references into "map.<K>.<V>" heaps;
//   - ghost fields are extra heaps "pkg.T.$f".

import (
	"fmt"
	"go/types"
	"strings"
)

type Kind int

const (
	KInt Kind = iota
	KBool
	KSlice  // Fs = ptr, len, cap
	KStruct // Fs = fields
	KLoc    // pointer to a non-struct location
	KArr    // T = SMT array term (Array Int S)
	KTuple
)

type Loc struct {
	Heap  string
	Idx   string
	Sub   string // second index for array-typed fields ("" = none)
	Addr  string // flat address term of the location
	Typ   types.Type
	Whole bool // ghost global scalar: the heap itself is the value
}

type Val struct {
	K    Kind
	T    string
	Fs   []Val
	Loc  *Loc
	Clo  *Closure
	Elem string // KArr: element sort
	Src  string // heap the value was loaded from (callback contracts by field)
}

type Closure struct {
	Fn    interface{} // *ssa.Function
	Binds []Val
}

func IntV(t string) Val  { return Val{K: KInt, T: t} }
func BoolV(t string) Val { return Val{K: KBool, T: t} }

func (v Val) String() string {
	switch v.K {
	case KInt, KBool, KArr:
		return v.T
	case KLoc:
		return fmt.Sprintf("&%s[%s %s]", v.Loc.Heap, v.Loc.Idx, v.Loc.Sub)
	}
	var s []string
	for _, f := range v.Fs {
		s = append(s, f.String())
	}
	return "{" + strings.Join(s, " ") + "}"
}

func sym(s string) string { return "|" + s + "|" }

func smtInt(n int64) string {
	if n < 0 {
		return fmt.Sprintf("(- %d)", -n)
	}
	return fmt.Sprintf("%d", n)
}

func addOff(base string, off int64) string {
	if off == 0 {
		return base
	}
	return fmt.Sprintf("(+ %s %d)", base, off)
}

// elemSort returns the SMT sort of a scalar Go type stored in one heap cell.
func elemSort(t types.Type) string {
	if isBool(t) {
		return "Bool"
	}
	return "Int"
}

// Gen is the per-run generator state shared by all paths of all functions: declarations and fresh names.
type Gen struct {
	P        *Program
	DB       *ContractDB
	decls    []string
	declared map[string]bool
	nfresh   int
	heapSort map[string]string
	strs     map[string]int
	globals  map[string]bool
	notes    map[string]bool // assumptions / abstractions actually used
	ufuns    map[string]bool
}

func NewGen(P *Program, DB *ContractDB) *Gen {
	return &Gen{P: P, DB: DB, declared: map[string]bool{}, heapSort: map[string]string{}, strs: map[string]int{}, globals: map[string]bool{},
		notes: map[string]bool{}, ufuns: map[string]bool{}}
}

func (g *Gen) note(s string) { g.notes[s] = true }

func (g *Gen) declare(name, decl string) {
	if !g.declared[name] {
		g.declared[name] = true
		g.decls = append(g.decls, decl)
	}
}

func (g *Gen) fresh(prefix, sort string) string {
	g.nfresh++
	n := sym(fmt.Sprintf("%s!%d", prefix, g.nfresh))
	g.decls = append(g.decls, fmt.Sprintf("(declare-const %s %s)", n, sort))
	return n
}

// heapVersion declares a new version constant of heap h.
func (g *Gen) heapConst(h string, sort string) string {
	if s, ok := g.heapSort[h]; ok && s != sort {
		panic(fmt.Sprintf("heap %s used at sorts %s and %s", h, s, sort))
	}
	g.heapSort[h] = sort
	g.nfresh++
	n := sym(fmt.Sprintf("H:%s:%d", h, g.nfresh))
	g.decls = append(g.decls, fmt.Sprintf("(declare-const %s %s)", n, sort))
	return n
}

func (g *Gen) heap0(h string, sort string) string {
	if s, ok := g.heapSort[h]; ok && s != sort {
		panic(fmt.Sprintf("heap %s used at sorts %s and %s", h, s, sort))
	}
	g.heapSort[h] = sort
	n := sym("H:" + h + ":0")
	g.declare(n, fmt.Sprintf("(declare-const %s %s)", n, sort))
	return n
}

// State is one symbolic path state.
type State struct {
	g        *Gen
	heaps    map[string]string
	pc       []string
	fr       *Frame
	old      map[string]string // heaps at entry of the verified function
	written  map[string]bool
	dead     bool
	pathLog  []string
	loopSt   map[int]*loopEntry
	dry      *dryRun
	vc       *FuncVC
	spawned  []spawnRec
	step     *stepState // thread-modular mode
	inAtomic bool
	lastRecv string              // "ok" term of the last channel receive ("" = none yet)
	cloCells map[string]*Closure // closures stored in cells (captured func-typed variables), keyed by heap|index
	axioms   []axiomTerm         // assumed lazily: added to an obligation only when relevant to its goal
	quiet    bool                // spec translation: assumptions produced by loads are dropped
}

type axiomTerm struct {
	name string
	term string
	syms []string // uninterpreted spec functions mentioned ("|U:f|"); empty: always included
}

type loopEntry struct {
	measure string
}

func (st *State) clone() *State {
	n := &State{g: st.g, heaps: make(map[string]string, len(st.heaps)), old: st.old, written: make(map[string]bool, len(st.written)),
		loopSt: map[int]*loopEntry{}, dry: st.dry, vc: st.vc, axioms: st.axioms, spawned: append([]spawnRec(nil), st.spawned...), step: st.step.clone(), inAtomic: st.inAtomic, lastRecv: st.lastRecv, cloCells: cloneClo(st.cloCells)}
	for k, v := range st.heaps {
		n.heaps[k] = v
	}
	for k, v := range st.written {
		n.written[k] = v
	}
	for k, v := range st.loopSt {
		n.loopSt[k] = v
	}
	n.pc = append([]string(nil), st.pc...)
	n.pathLog = append([]string(nil), st.pathLog...)
	n.fr = st.fr.clone()
	return n
}

func cloneClo(m map[string]*Closure) map[string]*Closure {
	if m == nil {
		return nil
	}
	n := make(map[string]*Closure, len(m))
	for k, v := range m {
		n[k] = v
	}
	return n
}

func (st *State) assume(t string) {
	if t == "true" || st.quiet {
		return
	}
	st.pc = append(st.pc, t)
}

func (st *State) cur(h, sort string) string {
	if t, ok := st.heaps[h]; ok {
		if s := st.g.heapSort[h]; s != sort {
			panic(fmt.Sprintf("heap %s used at sorts %s and %s", h, s, sort))
		}
		return t
	}
	t := st.g.heap0(h, sort)
	st.heaps[h] = t
	return t
}

func (st *State) setHeap(h, sort, term string) {
	n := st.g.heapConst(h, sort)
	st.assume(fmt.Sprintf("(= %s %s)", n, term))
	st.heaps[h] = n
	st.markWritten(h)
}

func (st *State) markWritten(h string) {
	st.written[h] = true
	if st.dry != nil {
		st.dry.write(h)
	}
}

func (st *State) havocHeap(h string) {
	sort, ok := st.g.heapSort[h]
	if !ok {
		return
	}
	old := st.cur(h, sort)
	st.heaps[h] = st.g.heapConst(h, sort)
	st.markWritten(h)
	for k := range st.cloCells {
		if strings.HasPrefix(k, h+"|") {
			delete(st.cloCells, k)
		}
	}
	if h == "$brk" {
		// the allocation watermark only grows
		st.assume(fmt.Sprintf("(>= (select %s 0) (select %s 0))", st.heaps[h], old))
	}
}

// ---- location access ----

func locSort(l *Loc) string {
	if _, isMap := l.Typ.Underlying().(*types.Map); isMap && l.Sub == "" && strings.Contains(l.Heap, "$") {
		return "(Array Int " + smtSortOf(l.Typ) + ")"
	}
	if arr, isArr := l.Typ.Underlying().(*types.Array); isArr && l.Sub == "" {
		return "(Array Int (Array Int " + elemSort(arr.Elem()) + "))"
	}
	es := elemSort(l.Typ)
	if l.Sub != "" {
		return "(Array Int (Array Int " + es + "))"
	}
	return "(Array Int " + es + ")"
}

func (st *State) loadLoc(l *Loc) Val {
	st.sharedAccess(l.Heap, false)
	h := st.cur(l.Heap, locSort(l))
	var t string
	if l.Sub != "" {
		t = fmt.Sprintf("(select (select %s %s) %s)", h, l.Idx, l.Sub)
	} else {
		t = fmt.Sprintf("(select %s %s)", h, l.Idx)
	}
	v := st.scalar(l.Typ, t)
	v.Src = l.Heap
	if st.cloCells != nil {
		if c, ok := st.cloCells[l.Heap+"|"+l.Idx]; ok {
			v.Clo = c
		}
	}
	return v
}

// scalar wraps a loaded term as a Val of Go type t, adding the type's range as an assumption.
func (st *State) scalar(t types.Type, term string) Val {
	if isBool(t) {
		return BoolV(term)
	}
	if isInteger(t) {
		st.assumeRange(t, term)
	} else if !isFloat(t) {
		st.assume(fmt.Sprintf("(<= 0 %s)", term)) // references are non-negative
	}
	return IntV(term)
}

func (st *State) assumeRange(t types.Type, term string) {
	if !isInteger(t) || (len(term) > 0 && (term[0] >= '0' && term[0] <= '9')) {
		return
	}
	lo, hi := intRange(t)
	st.assume(fmt.Sprintf("(and (<= %s %s) (<= %s %s))", lo, term, term, hi))
}

func (st *State) storeLoc(l *Loc, v Val) {
	st.sharedAccess(l.Heap, true)
	if v.Clo != nil {
		if st.cloCells == nil {
			st.cloCells = map[string]*Closure{}
		}
		st.cloCells[l.Heap+"|"+l.Idx] = v.Clo
	} else if st.cloCells != nil {
		delete(st.cloCells, l.Heap+"|"+l.Idx)
	}
	sort := locSort(l)
	h := st.cur(l.Heap, sort)
	var t string
	if l.Sub != "" {
		t = fmt.Sprintf("(store %s %s (store (select %s %s) %s %s))", h, l.Idx, h, l.Idx, l.Sub, v.T)
	} else {
		t = fmt.Sprintf("(store %s %s %s)", h, l.Idx, v.T)
	}
	st.setHeap(l.Heap, sort, t)
}

func (g *Gen) fieldHeapName(named types.Type, f *types.Var) string {
	return typeKey(named) + "." + f.Name()
}

// fieldLoc: location (or sub-object address) of field i of the struct at address base.
// Returns either a KLoc (scalar / array field), a KInt address (embedded struct), or nil with slice heaps.
func (st *State) fieldAddr(named types.Type, st0 *types.Struct, i int, base string) Val {
	f := st0.Field(i)
	off := st.g.P.fieldOffset(st0, i)
	ft := f.Type()
	switch u := ft.Underlying().(type) {
	case *types.Struct:
		_ = u
		return IntV(addOff(base, off))
	case *types.Array:
		return Val{K: KLoc, Loc: &Loc{Heap: st.g.fieldHeapName(named, f), Idx: base, Sub: "", Addr: addOff(base, off), Typ: ft}}
	}
	return Val{K: KLoc, Loc: &Loc{Heap: st.g.fieldHeapName(named, f), Idx: base, Addr: addOff(base, off), Typ: ft}}
}

// loadAt loads a value of type t stored at "address" addr. For struct types addr is the struct address;
// for scalars it is a cell in mem.<key>.
func (st *State) loadAt(t types.Type, addr string) Val {
	switch u := t.Underlying().(type) {
	case *types.Struct:
		fs := make([]Val, u.NumFields())
		for i := 0; i < u.NumFields(); i++ {
			fs[i] = st.loadField(t, u, i, addr)
		}
		return Val{K: KStruct, Fs: fs}
	case *types.Slice:
		return st.loadSliceFrom("mem.slice", addr)
	case *types.Array:
		h := st.cur("mem.arr."+memKey(u.Elem()), "(Array Int (Array Int "+elemSort(u.Elem())+"))")
		return Val{K: KArr, T: fmt.Sprintf("(select %s %s)", h, addr), Elem: elemSort(u.Elem())}
	}
	return st.loadLoc(&Loc{Heap: "mem." + memKey(t), Idx: addr, Addr: addr, Typ: t})
}

func (st *State) loadSliceFrom(heap string, idx string) Val {
	p := st.cur(heap+"#ptr", "(Array Int Int)")
	l := st.cur(heap+"#len", "(Array Int Int)")
	c := st.cur(heap+"#cap", "(Array Int Int)")
	lt := fmt.Sprintf("(select %s %s)", l, idx)
	ct := fmt.Sprintf("(select %s %s)", c, idx)
	st.assume(fmt.Sprintf("(and (<= 0 %s) (<= %s %s))", lt, lt, ct))
	return Val{K: KSlice, Fs: []Val{IntV(fmt.Sprintf("(select %s %s)", p, idx)), IntV(lt), IntV(ct)}}
}

func (st *State) storeSliceTo(heap string, idx string, v Val) {
	for k, suf := range []string{"#ptr", "#len", "#cap"} {
		h := st.cur(heap+suf, "(Array Int Int)")
		st.setHeap(heap+suf, "(Array Int Int)", fmt.Sprintf("(store %s %s %s)", h, idx, v.Fs[k].T))
	}
}

func (st *State) loadField(named types.Type, s *types.Struct, i int, base string) Val {
	f := s.Field(i)
	ft := f.Type()
	switch u := ft.Underlying().(type) {
	case *types.Struct:
		return st.loadAt(ft, addOff(base, st.g.P.fieldOffset(s, i)))
	case *types.Slice:
		return st.loadSliceFrom(st.g.fieldHeapName(named, f), base)
	case *types.Array:
		es := elemSort(u.Elem())
		h := st.cur(st.g.fieldHeapName(named, f), "(Array Int (Array Int "+es+"))")
		return Val{K: KArr, T: fmt.Sprintf("(select %s %s)", h, base), Elem: es}
	}
	return st.loadLoc(&Loc{Heap: st.g.fieldHeapName(named, f), Idx: base, Typ: ft})
}

func (st *State) storeField(named types.Type, s *types.Struct, i int, base string, v Val) {
	f := s.Field(i)
	ft := f.Type()
	switch u := ft.Underlying().(type) {
	case *types.Struct:
		st.storeAt(ft, addOff(base, st.g.P.fieldOffset(s, i)), v)
		return
	case *types.Slice:
		st.storeSliceTo(st.g.fieldHeapName(named, f), base, v)
		return
	case *types.Array:
		es := elemSort(u.Elem())
		sort := "(Array Int (Array Int " + es + "))"
		name := st.g.fieldHeapName(named, f)
		h := st.cur(name, sort)
		st.setHeap(name, sort, fmt.Sprintf("(store %s %s %s)", h, base, v.T))
		return
	}
	st.storeLoc(&Loc{Heap: st.g.fieldHeapName(named, f), Idx: base, Typ: ft}, st.toScalar(v))
}

func (st *State) storeAt(t types.Type, addr string, v Val) {
	switch u := t.Underlying().(type) {
	case *types.Struct:
		for i := 0; i < u.NumFields(); i++ {
			st.storeField(t, u, i, addr, v.Fs[i])
		}
		return
	case *types.Slice:
		st.storeSliceTo("mem.slice", addr, v)
		return
	case *types.Array:
		name := "mem.arr." + memKey(u.Elem())
		sort := "(Array Int (Array Int " + elemSort(u.Elem()) + "))"
		h := st.cur(name, sort)
		st.setHeap(name, sort, fmt.Sprintf("(store %s %s %s)", h, addr, v.T))
		return
	}
	st.storeLoc(&Loc{Heap: "mem." + memKey(t), Idx: addr, Addr: addr, Typ: t}, st.toScalar(v))
}

// toScalar converts pointer-to-location values to their flat address when they must be stored or passed on.
func (st *State) toScalar(v Val) Val {
	if v.K == KLoc {
		if v.Loc.Addr == "" {
			st.g.note("address of a location without flat address escaped; fresh value used")
			return IntV(st.g.fresh("addr", "Int"))
		}
		a := v.Loc.Addr
		if v.Loc.Sub != "" {
			a = fmt.Sprintf("(+ %s (* %s %d))", a, v.Loc.Sub, st.g.P.sizeof(v.Loc.Typ))
		}
		return IntV(a)
	}
	return v
}

// zero value of a type
func (st *State) zero(t types.Type) Val {
	switch u := t.Underlying().(type) {
	case *types.Struct:
		fs := make([]Val, u.NumFields())
		for i := range fs {
			fs[i] = st.zero(u.Field(i).Type())
		}
		return Val{K: KStruct, Fs: fs}
	case *types.Slice:
		return Val{K: KSlice, Fs: []Val{IntV("0"), IntV("0"), IntV("0")}}
	case *types.Array:
		es := elemSort(u.Elem())
		z := "0"
		if es == "Bool" {
			z = "false"
		}
		return Val{K: KArr, T: fmt.Sprintf("((as const (Array Int %s)) %s)", es, z), Elem: es}
	case *types.Tuple:
		fs := make([]Val, u.Len())
		for i := range fs {
			fs[i] = st.zero(u.At(i).Type())
		}
		return Val{K: KTuple, Fs: fs}
	}
	if isBool(t) {
		return BoolV("false")
	}
	return IntV("0")
}

// freshVal creates an unconstrained value of type t (ranges assumed for integers).
func (st *State) freshVal(t types.Type, prefix string) Val {
	switch u := t.Underlying().(type) {
	case *types.Struct:
		fs := make([]Val, u.NumFields())
		for i := range fs {
			fs[i] = st.freshVal(u.Field(i).Type(), prefix+"."+u.Field(i).Name())
		}
		return Val{K: KStruct, Fs: fs}
	case *types.Slice:
		p := st.g.fresh(prefix+".ptr", "Int")
		l := st.g.fresh(prefix+".len", "Int")
		c := st.g.fresh(prefix+".cap", "Int")
		st.assume(fmt.Sprintf("(and (<= 0 %s) (<= %s %s) (<= 0 %s))", l, l, c, p))
		return Val{K: KSlice, Fs: []Val{IntV(p), IntV(l), IntV(c)}}
	case *types.Array:
		es := elemSort(u.Elem())
		return Val{K: KArr, T: st.g.fresh(prefix, "(Array Int "+es+")"), Elem: es}
	case *types.Tuple:
		fs := make([]Val, u.Len())
		for i := range fs {
			fs[i] = st.freshVal(u.At(i).Type(), fmt.Sprintf("%s.%d", prefix, i))
		}
		return Val{K: KTuple, Fs: fs}
	}
	if isBool(t) {
		return BoolV(st.g.fresh(prefix, "Bool"))
	}
	v := st.g.fresh(prefix, "Int")
	if isInteger(t) {
		st.assumeRange(t, v)
	} else if !isFloat(t) {
		st.assume(fmt.Sprintf("(<= 0 %s)", v))
	}
	return IntV(v)
}

// alloc returns a fresh non-nil address that is not alive, and marks it alive. The block [a, a+size) lies above
// the allocation watermark $brk (bump-allocator abstraction: fresh blocks never overlap blocks that existed before).
func (st *State) alloc(prefix string, size string) string {
	a := st.g.fresh(prefix, "Int")
	al := st.cur("$alive", "(Array Int Bool)")
	brk := st.cur("$brk", "(Array Int Int)")
	st.assume(fmt.Sprintf("(and (> %s 0) (>= %s (select %s 0)) (not (select %s %s)))", a, a, brk, al, a))
	wasW := st.written["$alive"]
	wasB := st.written["$brk"]
	st.setHeap("$alive", "(Array Int Bool)", fmt.Sprintf("(store %s %s true)", al, a))
	st.setHeap("$brk", "(Array Int Int)", fmt.Sprintf("(store %s 0 (+ %s (ite (> %s 0) %s 1)))", brk, a, size, size))
	if !wasW {
		delete(st.written, "$alive")
	}
	if !wasB {
		delete(st.written, "$brk")
	}
	return a
}

// belowBrk assumes that the object of the given size at address p was allocated before now.
func (st *State) belowBrk(p string, size string) {
	brk := st.cur("$brk", "(Array Int Int)")
	st.assume(fmt.Sprintf("(<= (+ %s %s) (select %s 0))", p, size, brk))
}

func ite(c, a, b string) string {
	if c == "true" {
		return a
	}
	if c == "false" {
		return b
	}
	return fmt.Sprintf("(ite %s %s %s)", c, a, b)
}

func and(ts ...string) string {
	var out []string
	for _, t := range ts {
		if t == "true" {
			continue
		}
		if t == "false" {
			return "false"
		}
		out = append(out, t)
	}
	switch len(out) {
	case 0:
		return "true"
	case 1:
		return out[0]
	}
	return "(and " + strings.Join(out, " ") + ")"
}

func not(t string) string {
	switch t {
	case "true":
		return "false"
	case "false":
		return "true"
	}
	if strings.HasPrefix(t, "(not ") {
		return t[5 : len(t)-1]
	}
	return "(not " + t + ")"
}

func eqVals(a, b Val) string {
	switch a.K {
	case KSlice, KStruct, KTuple:
		var cs []string
		for i := range a.Fs {
			cs = append(cs, eqVals(a.Fs[i], b.Fs[i]))
		}
		return and(cs...)
	}
	return fmt.Sprintf("(= %s %s)", a.T, b.T)
}

// elemAddr: address of element idx of an array/slice starting at ptr with element size sz. The address is wrapped
// in an uninterpreted function (ea<sz> ptr idx) whose meaning ptr + sz*idx is given by an axiom with the wrapped
// term as trigger: quantifier triggers over slice elements then match syntactically, independent of how the
// solver normalises the index arithmetic.
func (g *Gen) elemAddr(ptr, idx string, sz int64) string {
	if n, err := fmt.Sscanf(idx, "%d", new(int64)); err == nil && n == 1 && !strings.ContainsAny(idx, "( ") {
		var k int64
		fmt.Sscanf(idx, "%d", &k)
		if k == 0 {
			return ptr
		}
	}
	if sz == 1 {
		return fmt.Sprintf("(+ %s %s)", ptr, idx) // byte addresses stay plain: byte-level specs use p+i directly
	}
	name := fmt.Sprintf("ea%d", sz)
	n := sym(name)
	if !g.declared[n] {
		g.declared[n] = true
		g.decls = append(g.decls, fmt.Sprintf("(declare-fun %s (Int Int) Int)", n))
		g.decls = append(g.decls, fmt.Sprintf("(assert (forall ((p Int) (k Int)) (! (= (%s p k) (+ p (* %d k))) :pattern ((%s p k)))))", n, sz, n))
	}
	return fmt.Sprintf("(%s %s %s)", n, ptr, idx)
}
