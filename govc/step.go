package main

// Thread-modular ("step") mode. A function with "mode step" is verified against interference: between any two
// of its accesses to shared state, every shared heap is havocked subject to the package's global invariants
// ("inv") and two-state relations ("rely"/"guar", old = state after this thread's previous step). Every atomic
// operation (sync/atomic call) may carry ghost updates and assertions ("atomic k ..."); after each step that
// writes shared state all invariants and all "guar" relations are proof obligations.

import (
	"fmt"
	"go/types"
	"sort"
	"strings"

	"golang.org/x/tools/go/ssa"
)

type stepState struct {
	prev    map[string]string // heaps right after this thread's previous step
	touched bool              // a shared access happened since the last interference
	held    map[string]bool   // locks held (lockSpec.Field)
	pending string            // a plain write to shared state awaits its invariant check (label)
}

func (s *stepState) clone() *stepState {
	if s == nil {
		return nil
	}
	n := &stepState{prev: map[string]string{}, touched: s.touched, held: map[string]bool{}, pending: s.pending}
	for k, v := range s.prev {
		n.prev[k] = v
	}
	for k, v := range s.held {
		n.held[k] = v
	}
	return n
}

type stepCtx struct {
	spec     *StepSpec
	pkg      string
	shared   map[string]bool
	protects map[string][]string // lock field -> heaps
	ordinals map[*ssa.Function]map[ssa.Instruction]int
	guars    []*Clause
}

// setupStep prepares the step context of a function verified in step mode.
func (vc *FuncVC) setupStep() {
	sp := vc.g.DB.Steps[vc.pkg]
	if sp == nil {
		vc.errs = append(vc.errs, vc.name+": mode step but package "+vc.pkg+" declares no shared state")
		return
	}
	sc := &stepCtx{spec: sp, pkg: vc.pkg, shared: map[string]bool{}, protects: map[string][]string{}, ordinals: map[*ssa.Function]map[ssa.Instruction]int{}}
	resolve := func(items []*Expr) []string {
		var out []string
		for _, m := range items {
			if hn, ok := modHeapName(m); ok {
				for _, h := range vc.heapsOfName(vc.pkg, hn) {
					out = append(out, h)
				}
			} else {
				vc.errs = append(vc.errs, fmt.Sprintf("%s: shared/protects item %s must be heap(T.f) or mem(T)", vc.name, m.String()))
			}
		}
		return out
	}
	for _, h := range resolve(sp.Shared) {
		sc.shared[h] = true
	}
	for _, l := range sp.Locks {
		hs := resolve(l.Protects)
		sc.protects[l.Field] = hs
		for _, h := range hs {
			sc.shared[h] = true
		}
	}
	vc.step = sc
}

// atomicOrdinal: 1-based position (source order) of a sync/atomic call within its function.
func (sc *stepCtx) atomicOrdinal(fn *ssa.Function, in ssa.Instruction) int {
	m := sc.ordinals[fn]
	if m == nil {
		m = map[ssa.Instruction]int{}
		var calls []ssa.Instruction
		for _, b := range fn.Blocks {
			for _, i := range b.Instrs {
				if c, ok := i.(ssa.CallInstruction); ok {
					if f, ok := c.Common().Value.(*ssa.Function); ok && strings.HasPrefix(ShortName(f), "atomic.") {
						calls = append(calls, i)
					}
				}
			}
		}
		sort.SliceStable(calls, func(a, b int) bool { return calls[a].Pos() < calls[b].Pos() })
		for k, c := range calls {
			m[c] = k + 1
		}
		sc.ordinals[fn] = m
	}
	return m[in]
}

// stepContract returns the step-mode contract governing the current frame (nil if none).
func (vc *FuncVC) stepContract(st *State) *Contract {
	if vc.step == nil {
		return nil
	}
	if st.fr.caller == nil {
		return vc.con
	}
	if c := vc.g.DB.Funcs[ShortName(st.fr.fn)+"@step"]; c != nil {
		return c
	}
	if c := vc.g.DB.Funcs[ShortName(st.fr.fn)]; c != nil && c.Mode == "step" {
		return c
	}
	return nil
}

// frameVars: spec variables of the current frame (parameters; plus tracked locals in the top frame).
func (vc *FuncVC) frameVars(st *State) map[string]SV {
	if st.fr.caller == nil {
		return vc.specVars(st)
	}
	vars := map[string]SV{}
	for _, p := range st.fr.fn.Params {
		if v, ok := st.fr.regs[p]; ok {
			vars[p.Name()] = SV{V: v, T: p.Type()}
		}
	}
	return vars
}

// interfere: other threads run. Shared heaps not protected by a held lock get fresh values constrained by the
// invariants and by the rely/guar relations with respect to the state after this thread's previous step.
func (vc *FuncVC) interfere(st *State) {
	sc := vc.step
	ss := st.step
	protected := map[string]bool{}
	for lk, hs := range sc.protects {
		if ss.held[lk] {
			for _, h := range hs {
				protected[h] = true
			}
		}
	}
	prev := make(map[string]string, len(st.heaps))
	for k, v := range st.heaps {
		prev[k] = v
	}
	for _, h := range sortedKeys(sc.shared) {
		if protected[h] {
			continue
		}
		if _, known := st.g.heapSort[h]; !known {
			if srt, ok := st.g.sortOfHeapName(h); ok {
				st.cur(h, srt)
				prev[h] = st.heaps[h]
			} else {
				continue
			}
		}
		wasW := st.written[h]
		st.havocHeap(h)
		if !wasW {
			delete(st.written, h)
		}
	}
	env := &SpecEnv{g: st.g, st: st, heaps: st.heaps, old: prev, vars: vc.frameVars(st), pkg: vc.pkg}
	for _, c := range sc.spec.Invs {
		if t, err := env.Bool(c.E); err == nil {
			st.assume(t)
		} else {
			vc.errs = append(vc.errs, fmt.Sprintf("inv %s: %v", c.Label, err))
		}
	}
	for _, c := range sc.spec.Relies {
		if t, err := env.Bool(c.E); err == nil {
			st.assume(t)
		} else {
			vc.errs = append(vc.errs, fmt.Sprintf("rely %s: %v", c.Label, err))
		}
	}
	ss.touched = false
	st.pathLog = append(st.pathLog, "~")
}

// sharedAccess is called before a plain load/store of a location; it inserts interference when needed.
func (st *State) sharedAccess(heap string, write bool) {
	vc := st.vc
	if vc == nil || vc.step == nil || st.step == nil || st.quiet || st.inAtomic || st.dry != nil {
		return
	}
	base := heap
	if i := strings.Index(heap, "#"); i >= 0 {
		base = heap[:i]
	}
	if !vc.step.shared[heap] && !vc.step.shared[base] {
		return
	}
	if st.step.touched {
		vc.interfere(st)
	}
	st.step.touched = true
	if write {
		st.step.pending = heap
	}
}

// stepBegin / stepEnd bracket an atomic operation.
func (vc *FuncVC) stepBegin(st *State, in ssa.Instruction) (k int, con *Contract) {
	if st.step.touched {
		vc.interfere(st)
	}
	vc.flushAtCall(st)
	con = vc.stepContract(st)
	k = vc.step.atomicOrdinal(st.fr.fn, in)
	st.step.prev = make(map[string]string, len(st.heaps))
	for h, v := range st.heaps {
		st.step.prev[h] = v
	}
	if con != nil {
		env := st.specEnv(vc.pkg, vc.frameVars(st))
		for _, a := range con.Atomics[k] {
			if a.Pre != nil {
				if t, err := env.Bool(a.Pre.E); err == nil {
					st.oblige(fmt.Sprintf("step[%s.a%d].pre[%s]", shortTail(ShortName(st.fr.fn)), k, a.Pre.Label), t, a.Pre.Src)
					st.assume(t)
				} else {
					vc.errs = append(vc.errs, fmt.Sprintf("%s atomic %d pre: %v", ShortName(st.fr.fn), k, err))
				}
			}
		}
	}
	st.inAtomic = true
	return
}

func (vc *FuncVC) stepEnd(st *State, k int, con *Contract, ret Val, retT types.Type) {
	st.inAtomic = false
	st.step.touched = true
	fnTail := shortTail(ShortName(st.fr.fn))
	pre := st.step.prev
	vars := vc.frameVars(st)
	if retT != nil {
		vars["ret"] = SV{V: ret, T: retT}
	}
	env := &SpecEnv{g: st.g, st: st, heaps: st.heaps, old: pre, vars: vars, pkg: vc.pkg}
	if con != nil {
		for _, a := range con.Atomics[k] {
			if a.GA != nil {
				savedOld := st.old
				vc.ghostAssign(st, env, []*GhostAssign{a.GA})
				st.old = savedOld
				env.heaps = st.heaps
			}
		}
		for _, a := range con.Atomics[k] {
			if a.Assert != nil {
				if t, err := env.Bool(a.Assert.E); err == nil {
					st.oblige(fmt.Sprintf("step[%s.a%d].assert[%s]", fnTail, k, a.Assert.Label), t, a.Assert.Src)
					st.assume(t)
				} else {
					vc.errs = append(vc.errs, fmt.Sprintf("%s atomic %d assert: %v", ShortName(st.fr.fn), k, err))
				}
			}
		}
	}
	vc.stepCheck(st, fmt.Sprintf("%s.a%d", fnTail, k), pre)
}

// stepCheck: after a step that wrote shared state, every invariant and every guarantee relation is an obligation.
func (vc *FuncVC) stepCheck(st *State, label string, pre map[string]string) {
	env := &SpecEnv{g: st.g, st: st, heaps: st.heaps, old: pre, vars: vc.frameVars(st), pkg: vc.pkg}
	for _, c := range vc.step.spec.Invs {
		if t, err := env.Bool(c.E); err == nil {
			st.oblige(fmt.Sprintf("step[%s].inv[%s]", label, c.Label), t, c.Src)
		} else {
			vc.errs = append(vc.errs, fmt.Sprintf("inv %s: %v", c.Label, err))
		}
	}
	for _, c := range vc.step.spec.Relies {
		if !strings.HasPrefix(c.Label, "g-") {
			continue // relations that mention this thread's local ghost state are only assumed (see DESIGN)
		}
		if t, err := env.Bool(c.E); err == nil {
			st.oblige(fmt.Sprintf("step[%s].guar[%s]", label, c.Label), t, c.Src)
		} else {
			vc.errs = append(vc.errs, fmt.Sprintf("guar %s: %v", c.Label, err))
		}
	}
	st.step.pending = ""
	st.step.prev = make(map[string]string, len(st.heaps))
	for h, v := range st.heaps {
		st.step.prev[h] = v
	}
}

// lockOp handles mutex Lock/Unlock in step mode.
func (vc *FuncVC) lockOp(st *State, acquire bool) {
	for _, l := range vc.step.spec.Locks {
		if l.Kind != "mutex" {
			continue
		}
		if acquire {
			if st.step.touched || true {
				// acquiring is a synchronisation point: earlier holders may have changed the protected state
				st.step.held[l.Field] = false
				vc.interfere(st)
			}
			st.step.held[l.Field] = true
		} else {
			st.step.held[l.Field] = false
		}
	}
	st.step.touched = true
}

// tryLockOp: a CAS on a try-lock flag changes the held set.
func (vc *FuncVC) tryLockOp(st *State, heap string, oldV, newV string, ok string) {
	for _, l := range vc.step.spec.Locks {
		if l.Kind != "trylock" || l.Field != heap {
			continue
		}
		// path-sensitive: the caller forks on ok right after; record the attempt, resolved by setHeld
		st.step.held["?"+l.Field] = true
		_ = oldV
		_ = newV
		_ = ok
	}
}
