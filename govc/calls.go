package main

// Calls: builtins, intrinsics (sync/atomic), contracts, inlining, callbacks, external functions.

import (
	"os"
	"go/token"
	"fmt"
	"go/types"
	"strings"

	"golang.org/x/tools/go/ssa"
)

type outcome struct {
	st  *State
	res Val
}

const maxInlineDepth = 6

func hasLoop(fn *ssa.Function) bool {
	for _, b := range fn.Blocks {
		for _, s := range b.Succs {
			if s.Dominates(b) {
				return true
			}
		}
	}
	return false
}

func instrCount(fn *ssa.Function) int {
	n := 0
	for _, b := range fn.Blocks {
		n += len(b.Instrs)
	}
	return n
}

func (vc *FuncVC) inlinable(fn *ssa.Function, depth int) bool {
	if fn.Blocks == nil || depth >= maxInlineDepth || hasLoop(fn) {
		return false
	}
	pk := fnPkg(fn)
	if pk == nil || !strings.HasPrefix(pk.Path(), modPrefix) {
		return false
	}
	return instrCount(fn) <= 120
}

func (vc *FuncVC) doCall(st *State, call ssa.CallInstruction) []outcome {
	c := call.Common()
	var args []Val
	for _, a := range c.Args {
		args = append(args, st.val(a))
	}
	var resT types.Type
	if v := call.Value(); v != nil {
		resT = v.Type()
	} else {
		resT = c.Signature().Results()
	}
	return vc.callCommon(st, c, args, resT, st.valOrZero(c.Value))
}

func (st *State) valOrZero(v ssa.Value) Val {
	if v == nil {
		return IntV("0")
	}
	if _, ok := v.(*ssa.Builtin); ok {
		return IntV("0")
	}
	return st.val(v)
}

func (vc *FuncVC) callCommon(st *State, c *ssa.CallCommon, args []Val, resT types.Type, fnv Val) []outcome {
	if c.IsInvoke() {
		recv := fnv
		full := append([]Val{recv}, args...)
		if fn := vc.resolveInvoke(c); fn != nil {
			st.nilCheck(recv.T, "interface method call "+c.Method.Name())
			return vc.callStatic(st, fn, full, nil, resT)
		}
		key := "(" + typeKey(c.Value.Type()) + ")." + c.Method.Name()
		if con, ok := vc.g.DB.Funcs[key]; ok {
			return vc.applyContract(st, con, key, nil, c.Signature(), full, resT, true)
		}
		st.g.note("interface method " + key + " has no contract: all heaps havocked")
		return vc.havocAll(st, resT, "invoke."+c.Method.Name())
	}
	switch v := c.Value.(type) {
	case *ssa.Builtin:
		return vc.builtin(st, v.Name(), c, args, resT)
	case *ssa.Function:
		return vc.callStatic(st, v, args, nil, resT)
	}
	// dynamic function value
	if fnv.Clo == nil {
		if fn, binds, ok := vc.staticClosure(st, c.Value); ok {
			fnv.Clo = &Closure{Fn: fn, Binds: binds}
		}
	}
	if fnv.Clo != nil {
		fn := fnv.Clo.Fn.(*ssa.Function)
		return vc.callStatic(st, fn, args, fnv.Clo.Binds, resT)
	}
	// callback contracts: by field of origin, then by named function type
	if fnv.Src != "" {
		if con, ok := vc.g.DB.Callbacks["field:"+fnv.Src]; ok {
			return vc.applyContract(st, con, "field:"+fnv.Src, nil, c.Signature(), append([]Val{fnv}, args...), resT, false)
		}
	}
	tk := typeKey(c.Value.Type())
	if con, ok := vc.g.DB.Callbacks["type:"+tk]; ok {
		return vc.applyContract(st, con, "type:"+tk, nil, c.Signature(), append([]Val{fnv}, args...), resT, false)
	}
	st.g.note("call through function value of type " + tk + " without callback contract: all heaps havocked")
	return vc.havocAll(st, resT, "dyncall")
}

func (vc *FuncVC) resolveInvoke(c *ssa.CallCommon) *ssa.Function {
	iface, ok := c.Value.Type().Underlying().(*types.Interface)
	if !ok {
		return nil
	}
	key := typeKey(c.Value.Type())
	cands, done := vc.g.P.Impls[key]
	if !done {
		for _, sp := range vc.g.P.Pkgs {
			for _, m := range sp.Members {
				if tn, ok := m.(*ssa.Type); ok {
					if named, ok := tn.Type().(*types.Named); ok {
						if _, isIface := named.Underlying().(*types.Interface); isIface {
							continue
						}
						if types.Implements(types.NewPointer(named), iface) || types.Implements(named, iface) {
							cands = append(cands, named)
						}
					}
				}
			}
		}
		vc.g.P.Impls[key] = cands
	}
	named := (*types.Named)(nil)
	if n, ok := c.Value.Type().(*types.Named); ok {
		named = n
	}
	if named == nil || named.Obj().Pkg() == nil || !strings.HasPrefix(named.Obj().Pkg().Path(), modPrefix) {
		return nil // only module interfaces are resolved to their unique implementation
	}
	if len(cands) != 1 {
		return nil
	}
	var recvT types.Type = types.NewPointer(cands[0])
	if types.Implements(cands[0], iface) {
		recvT = cands[0]
	}
	sel := vc.g.P.Prog.MethodSets.MethodSet(recvT).Lookup(c.Method.Pkg(), c.Method.Name())
	if sel == nil {
		return nil
	}
	vc.g.note("interface " + key + " dispatches to its only implementation in the module (" + typeKey(cands[0]) + ")")
	return vc.g.P.Prog.MethodValue(sel)
}

func (vc *FuncVC) havocAll(st *State, resT types.Type, what string) []outcome {
	for _, h := range sortedKeys(st.g.heapSort) {
		if h == "$alive" || h == "$brk" {
			continue
		}
		st.havocHeap(h)
	}
	return []outcome{{st, st.freshVal(resT, what)}}
}

func (vc *FuncVC) callStatic(st *State, fn *ssa.Function, args []Val, binds []Val, resT types.Type) []outcome {
	name := ShortName(fn)
	if vc.pendingAt != nil && !(vc.step != nil && (strings.HasPrefix(name, "atomic.") || (vc.g.DB.Funcs[name] != nil && !vc.g.DB.Funcs[name].Inline))) {
		vc.flushAtCall(st)
	}
	if st.fr.caller == nil {
		for _, ch := range vc.con.CallHavoc {
			if name == ch.Callee || strings.HasSuffix(name, ch.Callee) {
				st.g.note("in " + vc.name + " calls to " + name + " are abstracted to a havoc of the listed locations (trusted call-site abstraction)")
				if ch.All {
					return vc.havocAll(st, resT, "callhavoc")
				}
				pre := make(map[string]string, len(st.heaps))
				for k, v := range st.heaps {
					pre[k] = v
				}
				env := &SpecEnv{g: st.g, st: st, heaps: pre, old: st.old, vars: vc.specVars(st), pkg: vc.pkg}
				for _, m := range ch.Items {
					vc.havocItem(st, env, m, "call "+name)
				}
				return []outcome{{st, st.freshVal(resT, "ch."+fn.Name())}}
			}
		}
	}
	if r, ok := vc.intrinsic(st, name, fn, args, resT); ok {
		return r
	}
	con := vc.g.DB.Funcs[name]
	if vc.step != nil {
		// thread-modular mode: callees with a step contract are executed step by step (inlined)
		if sc := vc.g.DB.Funcs[name+"@step"]; sc != nil && fn.Blocks != nil && !sc.Trusted && fnPkg(fn) != nil && fnPkg(fn).Name() == vc.pkg {
			if !hasLoop(fn) {
				return vc.inline(st, fn, args, binds, resT)
			}
			con = sc
			name = name + "@step"
		}
	}
	if con != nil && !con.Inline {
		vc.curBinds = binds
		defer func() { vc.curBinds = nil }()
		if vc.step != nil && st.step != nil && st.dry == nil && (con.StepOp || vc.touchesShared(con)) {
			// thread-modular mode: a contract call that may write shared state is one step
			if st.step.touched {
				vc.interfere(st)
			}
			pre := make(map[string]string, len(st.heaps))
			for k, v := range st.heaps {
				pre[k] = v
			}
			st.inAtomic = true
			vc.flushAtCall(st)
			outs := vc.applyContract(st, con, name, fn, fn.Signature, args, resT, false)
			for _, o := range outs {
				o.st.inAtomic = false
				o.st.step.touched = true
				vc.stepCheck(o.st, "call:"+shortTail(name), pre)
			}
			return outs
		}
		return vc.applyContract(st, con, name, fn, fn.Signature, args, resT, false)
	}
	depth := 0
	for f := st.fr; f != nil; f = f.caller {
		depth++
	}
	if vc.inlinable(fn, depth) || (con != nil && con.Inline && fn.Blocks != nil) {
		return vc.inline(st, fn, args, binds, resT)
	}
	pk := fnPkg(fn)
	if fn.Blocks != nil && pk != nil && strings.HasPrefix(pk.Path(), modPrefix) {
		st.g.note("call to " + name + " (no contract, not inlinable): all heaps havocked")
		return vc.havocAll(st, resT, "call."+fn.Name())
	}
	return vc.external(st, name, fn, args, resT)
}

// external: standard-library function without contract. Results are unconstrained; memory reachable through
// pointer and slice arguments is havocked (element heaps as a whole).
func (vc *FuncVC) external(st *State, name string, fn *ssa.Function, args []Val, resT types.Type) []outcome {
	st.g.note("external call " + name + ": unconstrained result; argument-reachable memory havocked")
	ps := fn.Signature.Params()
	for i, a := range args {
		var pt types.Type
		off := 0
		if fn.Signature.Recv() != nil {
			off = 1
		}
		if i-off >= 0 && i-off < ps.Len() {
			pt = ps.At(i - off).Type()
		}
		switch a.K {
		case KLoc:
			st.havocHeap(a.Loc.Heap)
			if _, ok := a.Loc.Typ.Underlying().(*types.Slice); ok {
				for _, suf := range []string{"#ptr", "#len", "#cap"} {
					st.havocHeap(a.Loc.Heap + suf)
				}
			}
		case KSlice:
			if pt != nil {
				if sl, ok := pt.Underlying().(*types.Slice); ok {
					st.havocHeap("mem." + memKey(sl.Elem()))
				}
			}
		}
	}
	return []outcome{{st, st.freshVal(resT, "ext."+fn.Name())}}
}

func (vc *FuncVC) inline(st *State, fn *ssa.Function, args []Val, binds []Val, resT types.Type) []outcome {
	fr := &Frame{fn: fn, regs: map[ssa.Value]Val{}, caller: st.fr, free: binds}
	for i, p := range fn.Params {
		fr.regs[p] = args[i]
	}
	st.fr = fr
	var outs []outcome
	vc.explore(st, fn.Blocks[0], 0, nil, &outs)
	for i := range outs {
		outs[i].st.fr = outs[i].st.fr.caller
	}
	return outs
}

// calleeVars binds parameter names of a callee to argument values.
func (vc *FuncVC) calleeVars(con *Contract, fn *ssa.Function, sig *types.Signature, args []Val, hasFnArg bool) (map[string]SV, string) {
	vars := map[string]SV{}
	pkg := con.Pkg
	if len(con.Params) > 0 {
		for i, p := range con.Params {
			if i >= len(args) {
				break
			}
			t, err := vc.g.P.lookupType(p.Typ, con.Pkg)
			if err != nil {
				vc.errs = append(vc.errs, fmt.Sprintf("contract %s: %v", con.Name, err))
				t = tRef
			}
			vars[p.Name] = SV{V: args[i], T: t}
		}
		return vars, pkg
	}
	if fn != nil {
		for i, p := range fn.Params {
			if i < len(args) {
				vars[p.Name()] = SV{V: args[i], T: p.Type()}
			}
		}
		for i, fv := range fn.FreeVars {
			if i < len(vc.curBinds) {
				sv := SV{V: vc.curBinds[i], T: fv.Type()}
				if pt, ok := fv.Type().Underlying().(*types.Pointer); ok {
					sv.Deref = pt.Elem()
				}
				vars[fv.Name()] = sv
			}
		}
		if pk := fnPkg(fn); pk != nil && pkg == "" {
			pkg = pk.Name()
		}
		return vars, pkg
	}
	off := 0
	if hasFnArg {
		off = 1
	}
	for i := 0; i < sig.Params().Len(); i++ {
		if i+off < len(args) {
			vars[sig.Params().At(i).Name()] = SV{V: args[i+off], T: sig.Params().At(i).Type()}
		}
	}
	return vars, pkg
}

func (vc *FuncVC) bindResults(vars map[string]SV, con *Contract, fn *ssa.Function, sig *types.Signature, res Val) {
	rs := sig.Results()
	switch rs.Len() {
	case 0:
	case 1:
		vars["result"] = SV{V: res, T: rs.At(0).Type()}
		if n := rs.At(0).Name(); n != "" && n != "_" {
			vars[n] = SV{V: res, T: rs.At(0).Type()}
		}
	default:
		for i := 0; i < rs.Len(); i++ {
			vars[fmt.Sprintf("result%d", i)] = SV{V: res.Fs[i], T: rs.At(i).Type()}
			if n := rs.At(i).Name(); n != "" && n != "_" {
				vars[n] = SV{V: res.Fs[i], T: rs.At(i).Type()}
			}
		}
	}
	for i, p := range con.Results {
		if rs.Len() == 1 && i == 0 {
			vars[p.Name] = SV{V: res, T: rs.At(0).Type()}
		} else if i < rs.Len() {
			vars[p.Name] = SV{V: res.Fs[i], T: rs.At(i).Type()}
		}
	}
}

func (vc *FuncVC) applyContract(st *State, con *Contract, name string, fn *ssa.Function, sig *types.Signature, args []Val, resT types.Type, invoke bool) []outcome {
	vars, pkg := vc.calleeVars(con, fn, sig, args, !invoke && fn == nil)
	if fn == nil && len(con.Params) == 0 && invoke {
		// interface contract without params: receiver is "recv"
		vars["recv"] = SV{V: args[0], T: tRef}
		for i := 0; i < sig.Params().Len(); i++ {
			vars[sig.Params().At(i).Name()] = SV{V: args[i+1], T: sig.Params().At(i).Type()}
		}
	}
	vc.usedContracts[name] = con
	env := st.specEnv(pkg, vars)
	short := name
	for _, r := range con.Requires {
		t, err := env.Bool(r.E)
		if err != nil {
			vc.errs = append(vc.errs, fmt.Sprintf("%s requires[%s]: %v", name, r.Label, err))
			continue
		}
		st.oblige(fmt.Sprintf("call[%s].requires[%s]", short, r.Label), t, r.Src)
		st.assume(t)
	}
	pre := make(map[string]string, len(st.heaps))
	for k, v := range st.heaps {
		pre[k] = v
	}
	if con.ModAll {
		for _, h := range sortedKeys(st.g.heapSort) {
			if h != "$alive" && h != "$brk" {
				st.havocHeap(h)
			}
		}
	} else if !con.Pure {
		// all locations are resolved in the pre-call state, then havocked
		preEnv := &SpecEnv{g: st.g, st: st, heaps: pre, old: env.old, vars: vars, pkg: pkg}
		for _, m := range con.Modifies {
			vc.havocItem(st, preEnv, m, name)
		}
	}
	if con.ModArgs {
		for _, a := range args {
			switch a.K {
			case KLoc:
				if _, isSlice := a.Loc.Typ.Underlying().(*types.Slice); isSlice {
					st.storeSliceTo(a.Loc.Heap, a.Loc.Idx, st.freshVal(a.Loc.Typ, "modarg"))
				} else {
					vc.havocLoc(st, a.Loc)
				}
			}
		}
	}
	res := st.freshVal(resT, "res."+shortTail(name))
	vc.bindResults(vars, con, fn, sig, res)
	post := &SpecEnv{g: st.g, st: st, heaps: st.heaps, old: pre, vars: vars, pkg: pkg}
	for _, en := range con.Ensures {
		if en.Label == "probe-false" {
			continue // vacuity probe: checked for the function itself, never assumed by callers
		}
		t, err := post.Bool(en.E)
		if err != nil {
			vc.errs = append(vc.errs, fmt.Sprintf("%s ensures[%s]: %v", name, en.Label, err))
			continue
		}
		st.assume(t)
	}
	return []outcome{{st, res}}
}

func shortTail(n string) string {
	if i := strings.LastIndexAny(n, ".)"); i >= 0 && i+1 < len(n) {
		return n[i+1:]
	}
	return n
}

// heapsOfName returns the concrete heap names behind a "T.f" designation (slice-typed fields have three).
func (vc *FuncVC) heapsOfName(pkg, name string) []string {
	if strings.HasPrefix(name, "mem.") || strings.HasPrefix(name, "map.") || strings.HasPrefix(name, "$") {
		var out []string
		for _, h := range sortedKeys(vc.g.heapSort) {
			if h == name || strings.HasPrefix(h, name+"#") {
				out = append(out, h)
			}
		}
		if len(out) == 0 {
			out = append(out, name)
		}
		return out
	}
	if strings.Count(name, ".") == 1 {
		name = pkg + "." + name
	}
	var out []string
	for _, h := range sortedKeys(vc.g.heapSort) {
		if h == name || strings.HasPrefix(h, name+"#") {
			out = append(out, h)
		}
	}
	// ghost spelled without '$'
	parts := strings.Split(name, ".")
	if len(parts) == 3 {
		gname := parts[0] + "." + parts[1] + ".$" + parts[2]
		if _, ok := vc.g.DB.Ghosts[name]; ok {
			out = append(out, gname)
		}
	}
	if len(out) == 0 {
		out = append(out, name)
	}
	return out
}

// modHeapName extracts "T.f" from heap(T.f) / heap(pkg.T.f) / mem(uint8).
func modHeapName(e *Expr) (string, bool) {
	if e.Op != "call" || len(e.Args) != 1 {
		return "", false
	}
	flat := func(x *Expr) string { return strings.ReplaceAll(strings.ReplaceAll(x.String(), "(", ""), ")", "") }
	switch e.Name {
	case "heap":
		return flat(e.Args[0]), true
	case "mem":
		return "mem." + flat(e.Args[0]), true
	case "maps":
		return "map." + flat(e.Args[0]), true
	}
	return "", false
}

// mapHeapsOf resolves mapof(e) to the heaps of e's map type.
func (vc *FuncVC) mapHeapsOf(env *SpecEnv, m *Expr) ([]string, bool) {
	if m.Op != "call" || m.Name != "mapof" || len(m.Args) != 1 {
		return nil, false
	}
	sv, err := env.Value(m.Args[0])
	if err != nil {
		vc.errs = append(vc.errs, fmt.Sprintf("modifies %s: %v", m.String(), err))
		return nil, true
	}
	mt, ok := sv.T.Underlying().(*types.Map)
	if !ok {
		vc.errs = append(vc.errs, fmt.Sprintf("modifies %s: not a map", m.String()))
		return nil, true
	}
	hn, vt := mapHeaps(mt)
	out := []string{hn + "#has"}
	if _, isSlice := vt.Underlying().(*types.Slice); isSlice {
		out = append(out, hn+"#ptr", hn+"#len", hn+"#cap")
	} else {
		out = append(out, hn+"#val")
	}
	return out, true
}

func (vc *FuncVC) havocItem(st *State, env *SpecEnv, m *Expr, who string) {
	if h, lo, hi, ok := vc.elemsRegion(env, m); ok {
		if h != "" {
			sort := st.g.heapSort[h]
			if sort == "" {
				sort = "(Array Int Int)"
			}
			old := st.cur(h, sort)
			nh := st.g.heapConst(h, sort)
			st.assume(fmt.Sprintf("(forall ((ha Int)) (! (=> (or (< ha %s) (>= ha %s)) (= (select %s ha) (select %s ha))) :pattern ((select %s ha))))", lo, hi, nh, old, nh))
			st.heaps[h] = nh
			st.markWritten(h)
		}
		return
	}
	if hs, ok := vc.mapHeapsOf(env, m); ok {
		for _, h := range hs {
			if _, known := st.g.heapSort[h]; known {
				st.havocHeap(h)
			}
		}
		return
	}
	if hn, ok := modHeapName(m); ok {
		for _, h := range vc.heapsOfName(env.pkg, hn) {
			if _, known := st.g.heapSort[h]; !known {
				// not touched yet in this run: declare it so that the havoc takes effect
				if srt, ok := vc.g.sortOfHeapName(h); ok {
					st.cur(h, srt)
				}
			}
			if _, known := st.g.heapSort[h]; known {
				st.havocHeap(h)
			}
		}
		return
	}
	l := env.tryLoc(m)
	if l == nil {
		vc.errs = append(vc.errs, fmt.Sprintf("%s modifies %s: not a location", who, m.String()))
		return
	}
	vc.havocLoc(st, l)
}

func (vc *FuncVC) havocLoc(st *State, l *Loc) {
	if l.Whole {
		st.cur(l.Heap, smtSortOf(l.Typ))
		st.havocHeap(l.Heap)
		return
	}
	switch l.Typ.Underlying().(type) {
	case *types.Slice:
		st.storeSliceTo(l.Heap, l.Idx, st.freshVal(l.Typ, "havoc"))
		return
	case *types.Map:
		if l.Sub == "" {
			sort := locSort(l)
			h := st.cur(l.Heap, sort)
			f := st.g.fresh("havoc", smtSortOf(l.Typ))
			st.setHeap(l.Heap, sort, fmt.Sprintf("(store %s %s %s)", h, l.Idx, f))
			return
		}
	case *types.Array:
		if l.Sub == "" {
			sort := locSort(l)
			h := st.cur(l.Heap, sort)
			f := st.g.fresh("havoc", "(Array Int "+elemSort(l.Typ.Underlying().(*types.Array).Elem())+")")
			st.setHeap(l.Heap, sort, fmt.Sprintf("(store %s %s %s)", h, l.Idx, f))
			return
		}
	}
	st.storeLoc(l, st.freshVal(l.Typ, "havoc"))
}

// ---------- builtins ----------

func (vc *FuncVC) builtin(st *State, name string, c *ssa.CallCommon, args []Val, resT types.Type) []outcome {
	one := func(v Val) []outcome { return []outcome{{st, v}} }
	switch name {
	case "len", "cap":
		a := args[0]
		if a.K == KSlice {
			if name == "len" {
				return one(a.Fs[1])
			}
			return one(a.Fs[2])
		}
		if name == "cap" {
			if _, ok := c.Args[0].Type().Underlying().(*types.Chan); ok {
				h := st.cur("chan.cap", "(Array Int Int)")
				return one(IntV(fmt.Sprintf("(select %s %s)", h, a.T)))
			}
		}
		f := st.ufun("len."+memKey(c.Args[0].Type()), 1, "Int")
		t := fmt.Sprintf("(%s %s)", f, a.T)
		st.assume(fmt.Sprintf("(<= 0 %s)", t))
		return one(IntV(t))
	case "append":
		return one(vc.appendOp(st, c, args))
	case "copy":
		return one(vc.copyOp(st, c, args))
	case "delete":
		mt := c.Args[0].Type().Underlying().(*types.Map)
		st.mapSet(mt, args[0].T, st.toScalar(args[1]).T, Val{}, false)
		return one(Val{K: KTuple})
	case "close", "print", "println":
		return one(Val{K: KTuple})
	case "min", "max":
		op := "<="
		if name == "max" {
			op = ">="
		}
		r := args[0].T
		for _, a := range args[1:] {
			r = fmt.Sprintf("(ite (%s %s %s) %s %s)", op, r, a.T, r, a.T)
		}
		return one(IntV(r))
	case "ssa:wrapnilchk":
		return one(args[0])
	}
	st.g.note("builtin " + name + " not modelled: unconstrained result")
	return one(st.freshVal(resT, "builtin."+name))
}

// regionHeaps lists (heap, offset) pairs holding the scalar cells of an element of type t.
type cellHeap struct {
	heap string
	sort string
	off  int64
	typ  types.Type
	byIx bool // field heap indexed by struct address (off applies to the struct base, not the cell)
}

func (vc *FuncVC) cellsOf(t types.Type, base int64, out *[]cellHeap, ok *bool) {
	switch u := t.Underlying().(type) {
	case *types.Struct:
		for i := 0; i < u.NumFields(); i++ {
			f := u.Field(i)
			off := vc.g.P.fieldOffset(u, i)
			switch f.Type().Underlying().(type) {
			case *types.Struct:
				vc.cellsOf(f.Type(), base+off, out, ok)
			case *types.Slice, *types.Array:
				*ok = false
			default:
				*out = append(*out, cellHeap{heap: vc.g.fieldHeapName(t, f), sort: "(Array Int " + elemSort(f.Type()) + ")", off: base, typ: f.Type(), byIx: true})
			}
		}
	case *types.Slice:
		for _, suf := range []string{"#ptr", "#len", "#cap"} {
			*out = append(*out, cellHeap{heap: "mem.slice" + suf, sort: "(Array Int Int)", off: base, typ: tInt})
		}
	case *types.Array:
		*ok = false
	default:
		*out = append(*out, cellHeap{heap: "mem." + memKey(t), sort: "(Array Int " + elemSort(t) + ")", off: base, typ: t})
	}
}

// moveRegion defines new heap versions in which n elements starting at src are copied to dst
// (plus, optionally, a second region), everything else unchanged.
type regionCopy struct{ dst, src, n string }

func (vc *FuncVC) moveRegions(st *State, elem types.Type, copies []regionCopy, lo, hi string) {
	var cells []cellHeap
	ok := true
	vc.cellsOf(elem, 0, &cells, &ok)
	if !ok {
		st.g.note("append/copy of elements with array/slice-typed fields: element heaps havocked")
	}
	sz := vc.g.P.sizeof(elem)
	if sz > 1 {
		// element addresses are wrapped (ea<sz> ptr idx); make the source element's address term available
		// whenever the destination element's term occurs (and vice versa), so that quantified facts about the
		// source elements (triggered on ea<sz> src k) can fire for goals about the copy. Instances of the ea axiom.
		for _, rc := range copies {
			ea := st.g.elemAddr("p", "k", sz)
			_ = ea
			n := sym(fmt.Sprintf("ea%d", sz))
			st.assume(fmt.Sprintf("(forall ((k Int)) (! (= (%s %s k) (+ %s (* %d k))) :pattern ((%s %s k))))", n, rc.src, rc.src, sz, n, rc.dst))
			st.assume(fmt.Sprintf("(forall ((k Int)) (! (= (%s %s k) (+ %s (* %d k))) :pattern ((%s %s k))))", n, rc.dst, rc.dst, sz, n, rc.src))
		}
	}
	for _, c := range cells {
		h := st.cur(c.heap, c.sort)
		nh := st.g.heapConst(c.heap, c.sort)
		// one definitional axiom: nh[a] = h[a - D + S] inside a copied region, h[a] elsewhere
		body := fmt.Sprintf("(select %s ca)", h)
		for i := len(copies) - 1; i >= 0; i-- {
			rc := copies[i]
			D := addOff(rc.dst, c.off)
			S := addOff(rc.src, c.off)
			body = fmt.Sprintf("(ite (and (<= %s ca) (< ca (+ %s %s))) (select %s (+ (- ca %s) %s)) %s)", D, D, mulC(rc.n, sz), h, D, S, body)
		}
		st.assume(fmt.Sprintf("(forall ((ca Int)) (! (= (select %s ca) %s) :pattern ((select %s ca))))", nh, body, nh))
		st.heaps[c.heap] = nh
		st.markWritten(c.heap)
	}
}

func mulC(t string, c int64) string {
	if c == 1 {
		return t
	}
	return fmt.Sprintf("(* %s %d)", t, c)
}

func (vc *FuncVC) appendOp(st *State, c *ssa.CallCommon, args []Val) Val {
	s, t := args[0], args[1]
	sl, ok := c.Args[0].Type().Underlying().(*types.Slice)
	if !ok || t.K != KSlice {
		// append([]byte, string...)
		st.g.note("append of a string: result unconstrained")
		return st.freshVal(c.Args[0].Type(), "append")
	}
	elem := sl.Elem()
	sz := vc.g.P.sizeof(elem)
	ptr, ln, cp := s.Fs[0].T, s.Fs[1].T, s.Fs[2].T
	n := t.Fs[1].T
	newLen := st.g.fresh("append.len", "Int")
	st.assume(fmt.Sprintf("(= %s (+ %s %s))", newLen, ln, n))
	fits := fmt.Sprintf("(<= %s %s)", newLen, cp)
	nc := st.g.fresh("append.cap", "Int")
	st.assume(fmt.Sprintf("(>= %s %s)", nc, newLen))
	np := st.alloc("append.ptr", fmt.Sprintf("(* %s %d)", nc, sz))
	rp := st.g.fresh("append.rp", "Int")
	st.assume(fmt.Sprintf("(= %s %s)", rp, ite(fits, ptr, np)))
	rc := ite(fits, cp, nc)
	// when n == 0 Go returns s unchanged; covered: fits is true whenever n == 0
	dstTail := fmt.Sprintf("(+ %s %s)", rp, mulC(ln, sz))
	vc.moveRegions(st, elem, []regionCopy{{rp, ptr, ln}, {dstTail, t.Fs[0].T, n}}, "", "")
	return Val{K: KSlice, Fs: []Val{IntV(rp), IntV(newLen), IntV(rc)}}
}

func (vc *FuncVC) copyOp(st *State, c *ssa.CallCommon, args []Val) Val {
	d, s := args[0], args[1]
	sl, ok := c.Args[0].Type().Underlying().(*types.Slice)
	if !ok || s.K != KSlice || d.K != KSlice {
		st.g.note("copy from string: destination bytes havocked")
		st.havocHeap("mem.uint8")
		return st.freshVal(tInt, "copy")
	}
	n := st.g.fresh("copy.n", "Int")
	st.assume(fmt.Sprintf("(= %s (ite (<= %s %s) %s %s))", n, d.Fs[1].T, s.Fs[1].T, d.Fs[1].T, s.Fs[1].T))
	vc.moveRegions(st, sl.Elem(), []regionCopy{{d.Fs[0].T, s.Fs[0].T, n}}, "", "")
	return IntV(n)
}

// ---------- intrinsics ----------

func (vc *FuncVC) intrinsic(st *State, name string, fn *ssa.Function, args []Val, resT types.Type) ([]outcome, bool) {
	one := func(v Val) ([]outcome, bool) { return []outcome{{st, v}}, true }
	unit := Val{K: KTuple}
	if strings.HasPrefix(name, "atomic.") {
		op := strings.TrimPrefix(name, "atomic.")
		pt := fn.Signature.Params().At(0).Type().Underlying().(*types.Pointer).Elem()
		l := st.asLoc(args[0], pt)
		if args[0].K == KInt {
			st.nilCheck(args[0].T, "atomic operand")
		}
		if vc.step != nil && st.step != nil && st.dry == nil {
			return vc.atomicStep(st, op, l, pt, args, resT), true
		}
		if st.dry != nil {
			vc.dryStepGhostWrites(st)
		}
		switch {
		case strings.HasPrefix(op, "Load"):
			return one(st.loadLoc(l))
		case strings.HasPrefix(op, "Store"):
			st.storeLoc(l, st.toScalar(args[1]))
			return one(unit)
		case strings.HasPrefix(op, "Add"):
			old := st.loadLoc(l)
			nv := IntV(wrap(pt, fmt.Sprintf("(+ %s %s)", old.T, args[1].T)))
			c := st.g.fresh("atomic.add", "Int")
			st.assume(fmt.Sprintf("(= %s %s)", c, nv.T))
			st.storeLoc(l, IntV(c))
			return one(IntV(c))
		case strings.HasPrefix(op, "Swap"):
			old := st.loadLoc(l)
			st.storeLoc(l, st.toScalar(args[1]))
			return one(old)
		case strings.HasPrefix(op, "CompareAndSwap"):
			old := st.loadLoc(l)
			ok := st.g.fresh("cas.ok", "Bool")
			st.assume(fmt.Sprintf("(= %s (= %s %s))", ok, old.T, st.toScalar(args[1]).T))
			st.storeLoc(l, IntV(ite(ok, st.toScalar(args[2]).T, old.T)))
			return one(BoolV(ok))
		}
	}
	if name == "(*sync.WaitGroup).Wait" && len(st.spawned) > 0 {
		// fork-join: the effects of every goroutine started by this function are complete (and unknown) here
		for _, sp := range st.spawned {
			vc.havocEffects(st, sp)
		}
		st.g.note("fork-join abstraction: goroutines started by a function are summarised by their contract's modifies clause at the go statement and at WaitGroup.Wait")
		return one(unit)
	}
	if vc.step != nil && st.step != nil && st.dry == nil && (name == "(*sync.Mutex).Lock" || name == "(*sync.Mutex).Unlock") {
		vc.lockOp(st, name == "(*sync.Mutex).Lock")
		return one(unit)
	}
	switch name {
	case "(*sync.Mutex).Lock", "(*sync.Mutex).Unlock", "(*sync.WaitGroup).Add", "(*sync.WaitGroup).Done", "(*sync.WaitGroup).Wait",
		"(*sync.RWMutex).Lock", "(*sync.RWMutex).Unlock", "time.Sleep", "runtime.Gosched", "runtime.GC":
		st.g.note("sync primitives (Mutex, WaitGroup) are not executed: sequential / fork-join abstraction")
		return one(unit)
	case "runtime.NumCPU":
		v := st.g.fresh("numcpu", "Int")
		st.assume(fmt.Sprintf("(and (>= %s 1) (<= %s 65536))", v, v))
		return one(IntV(v))
	}
	return nil, false
}

// sortOfHeapName determines the SMT sort of a heap from its name (for heaps not touched yet).
func (g *Gen) sortOfHeapName(h string) (string, bool) {
	switch {
	case h == "$alive":
		return "(Array Int Bool)", true
	case h == "$brk":
		return "(Array Int Int)", true
	case h == "mem.bool":
		return "(Array Int Bool)", true
	case strings.HasPrefix(h, "mem.arr."):
		return "", false
	case strings.HasPrefix(h, "mem."):
		return "(Array Int Int)", true
	case strings.HasPrefix(h, "$g."):
		if gg, ok := g.DB.Ghosts[h]; ok {
			if t, err := g.P.lookupType(gg.Typ, gg.Pkg); err == nil {
				return smtSortOf(t), true
			}
		}
		return "", false
	}
	base := h
	if i := strings.Index(h, "#"); i >= 0 {
		return "(Array Int Int)", !strings.HasPrefix(h, "map.")
	}
	parts := strings.Split(base, ".")
	if len(parts) != 3 {
		return "", false
	}
	sp, ok := g.P.Pkgs[parts[0]]
	if !ok {
		return "", false
	}
	o := sp.Pkg.Scope().Lookup(parts[1])
	if o == nil {
		return "", false
	}
	fname := parts[2]
	if strings.HasPrefix(fname, "$") {
		if gg, ok := g.DB.Ghosts[parts[0]+"."+parts[1]+"."+fname[1:]]; ok {
			if t, err := g.P.lookupType(gg.Typ, gg.Pkg); err == nil {
				return "(Array Int " + smtSortOf(t) + ")", true
			}
		}
		return "", false
	}
	st, _ := o.Type().Underlying().(*types.Struct)
	if st == nil {
		return "", false
	}
	for i := 0; i < st.NumFields(); i++ {
		if st.Field(i).Name() == fname {
			ft := st.Field(i).Type()
			switch u := ft.Underlying().(type) {
			case *types.Array:
				return "(Array Int (Array Int " + elemSort(u.Elem()) + "))", true
			case *types.Slice, *types.Struct:
				return "", false
			}
			return "(Array Int " + elemSort(ft) + ")", true
		}
	}
	return "", false
}

type spawnRec struct {
	con  *Contract
	name string
	vars map[string]SV
	pkg  string
	ro   []roCell // cells of captured variables that the spawned closure only reads
}

// roCell: the cell of a variable captured by reference that the closure never assigns (its free variable is only
// dereferenced for loading): whatever the closure's modifies clause says about the memory the cell lives in, the
// closure does not write the cell itself, so its content survives the havoc of the closure's effects.
type roCell struct {
	addr Val
	elem types.Type
}

// readOnlyCaptures returns the captured cells fn provably never writes: every use of the free variable is a load
// (*fv) or a debug reference; nested closures capturing it again are treated as writers.
func readOnlyCaptures(fn *ssa.Function, binds []Val) []roCell {
	var out []roCell
	for i, fv := range fn.FreeVars {
		if i >= len(binds) {
			break
		}
		pt, ok := fv.Type().Underlying().(*types.Pointer)
		if !ok || fv.Referrers() == nil {
			continue
		}
		ro := true
		for _, u := range *fv.Referrers() {
			switch x := u.(type) {
			case *ssa.UnOp:
				if x.Op != token.MUL {
					ro = false
				}
			case *ssa.DebugRef:
			default:
				ro = false
			}
		}
		if ro {
			out = append(out, roCell{addr: binds[i], elem: pt.Elem()})
		}
	}
	return out
}

func (vc *FuncVC) havocEffects(st *State, sp spawnRec) {
	if sp.con == nil || sp.con.ModAll {
		for _, h := range sortedKeys(st.g.heapSort) {
			if h != "$alive" && h != "$brk" {
				st.havocHeap(h)
			}
		}
		return
	}
	pre := make(map[string]string, len(st.heaps))
	for k, v := range st.heaps {
		pre[k] = v
	}
	env := &SpecEnv{g: st.g, st: st, heaps: pre, old: st.old, vars: sp.vars, pkg: sp.pkg}
	for _, m := range sp.con.Modifies {
		vc.havocItem(st, env, m, sp.name)
	}
	// read-only captured cells keep their content
	if len(sp.ro) > 0 {
		before := &State{g: st.g, heaps: pre, written: map[string]bool{}, quiet: true}
		after := &State{g: st.g, heaps: st.heaps, written: map[string]bool{}, quiet: true}
		for _, c := range sp.ro {
			a, b := before.derefLoad(c.addr, c.elem), after.derefLoad(c.addr, c.elem)
			if a.K == b.K && len(a.Fs) == len(b.Fs) {
				st.assume(eqVals(a, b))
			}
		}
	}
}


// goStmt: "go f(args)". The callee's precondition is an obligation of the spawning function; its effects are
// havocked here and again at WaitGroup.Wait (fork-join abstraction).
func (vc *FuncVC) goStmt(st *State, g *ssa.Go) {
	c := &g.Call
	var args []Val
	for _, a := range c.Args {
		args = append(args, st.val(a))
	}
	var fn *ssa.Function
	var binds []Val
	if !c.IsInvoke() {
		switch v := c.Value.(type) {
		case *ssa.Function:
			fn = v
		default:
			fv := st.val(c.Value)
			if fv.Clo != nil {
				fn = fv.Clo.Fn.(*ssa.Function)
				binds = fv.Clo.Binds
			}
		}
	}
	st.g.note("go statements are not executed: the spawned function is verified separately against its contract")
	if fn == nil {
		st.spawned = append(st.spawned, spawnRec{})
		vc.havocEffects(st, spawnRec{})
		return
	}
	name := ShortName(fn)
	con := vc.g.DB.Funcs[name]
	if con == nil {
		st.g.note("goroutine " + name + " has no contract: all heaps havocked at go and at Wait")
		st.spawned = append(st.spawned, spawnRec{name: name})
		vc.havocEffects(st, spawnRec{})
		return
	}
	vc.curBinds = binds
	vars, pkg := vc.calleeVars(con, fn, fn.Signature, args, false)
	vc.curBinds = nil
	vc.usedContracts[name] = con
	env := st.specEnv(pkg, vars)
	for _, r := range con.Requires {
		t, err := env.Bool(r.E)
		if err != nil {
			vc.errs = append(vc.errs, fmt.Sprintf("go %s requires[%s]: %v", name, r.Label, err))
			continue
		}
		st.oblige(fmt.Sprintf("go[%s].requires[%s]", name, r.Label), t, r.Src)
	}
	sp := spawnRec{con: con, name: name, vars: vars, pkg: pkg, ro: readOnlyCaptures(fn, binds)}
	sp.ro = append(sp.ro, vc.privateCells(st, c.Value, binds)...)
	st.spawned = append(st.spawned, sp)
	vc.havocEffects(st, sp)
}

// atomicStep executes a sync/atomic operation as one step of the thread-modular mode.
func (vc *FuncVC) atomicStep(st *State, op string, l *Loc, pt types.Type, args []Val, resT types.Type) []outcome {
	unit := Val{K: KTuple}
	isTry := false
	for _, lk := range vc.step.spec.Locks {
		if lk.Kind == "trylock" && lk.Field == l.Heap {
			isTry = true
		}
	}
	k, con := vc.stepBegin(st, vc.curInstr)
	switch {
	case strings.HasPrefix(op, "Load"):
		v := st.loadLoc(l)
		vc.stepEnd(st, k, con, v, pt)
		return []outcome{{st, v}}
	case strings.HasPrefix(op, "Store"):
		st.storeLoc(l, st.toScalar(args[1]))
		vc.stepEnd(st, k, con, unit, nil)
		return []outcome{{st, unit}}
	case strings.HasPrefix(op, "Add"):
		old := st.loadLoc(l)
		c := st.g.fresh("atomic.add", "Int")
		st.assume(fmt.Sprintf("(= %s %s)", c, wrap(pt, fmt.Sprintf("(+ %s %s)", old.T, args[1].T))))
		st.storeLoc(l, IntV(c))
		vc.stepEnd(st, k, con, IntV(c), pt)
		return []outcome{{st, IntV(c)}}
	case strings.HasPrefix(op, "Swap"):
		old := st.loadLoc(l)
		st.storeLoc(l, st.toScalar(args[1]))
		vc.stepEnd(st, k, con, old, pt)
		return []outcome{{st, old}}
	case strings.HasPrefix(op, "CompareAndSwap"):
		old := st.loadLoc(l)
		exp, nv := st.toScalar(args[1]).T, st.toScalar(args[2]).T
		// fork on the outcome: the two cases have different effects (and, for try-locks, different held sets)
		s2 := st.clone()
		st.assume(fmt.Sprintf("(= %s %s)", old.T, exp))
		st.storeLoc(l, IntV(nv))
		if isTry {
			if nv == "1" {
				st.step.held[l.Heap] = true
			} else if nv == "0" {
				st.step.held[l.Heap] = false
			}
		}
		vc.stepEnd(st, k, con, BoolV("true"), tBool)
		s2.assume(fmt.Sprintf("(not (= %s %s))", old.T, exp))
		vc.stepEnd(s2, k, con, BoolV("false"), tBool)
		return []outcome{{st, BoolV("true")}, {s2, BoolV("false")}}
	}
	st.inAtomic = false
	return []outcome{{st, st.freshVal(resT, "atomic")}}
}

// touchesShared: does the contract's modifies clause mention a shared heap?
func (vc *FuncVC) touchesShared(con *Contract) bool {
	if con.ModAll {
		return true
	}
	if con.Pure {
		return false
	}
	for _, m := range con.Modifies {
		if hn, ok := modHeapName(m); ok {
			for _, h := range vc.heapsOfName(con.Pkg, hn) {
				if vc.step.shared[h] {
					return true
				}
			}
			continue
		}
		// location: decide by the field name syntactically (T.f of the selector)
		s := m.String()
		for h := range vc.step.shared {
			parts := strings.Split(h, ".")
			f := strings.TrimPrefix(parts[len(parts)-1], "$")
			if strings.HasSuffix(s, "."+f) || strings.Contains(s, "."+f+"[") {
				return true
			}
		}
	}
	return false
}

// staticClosure resolves a call through a func-typed local variable that lives in a cell (captured by closures)
// when the cell has exactly one store in the whole function and that store writes a closure literal.
func (vc *FuncVC) staticClosure(st *State, v ssa.Value) (*ssa.Function, []Val, bool) {
	ld, ok := v.(*ssa.UnOp)
	if !ok {
		return nil, nil, false
	}
	var cell ssa.Value = ld.X
	inParent := false
	if fv, ok := cell.(*ssa.FreeVar); ok {
		// the cell belongs to the enclosing function: find the binding in the MakeClosure that created us
		parent := fv.Parent().Parent()
		if parent == nil {
			return nil, nil, false
		}
		idx := -1
		for i, f := range fv.Parent().FreeVars {
			if f == fv {
				idx = i
			}
		}
		found := false
		for _, b := range parent.Blocks {
			for _, in := range b.Instrs {
				if mc, ok := in.(*ssa.MakeClosure); ok && mc.Fn == fv.Parent() && idx >= 0 && idx < len(mc.Bindings) {
					cell = mc.Bindings[idx]
					found = true
				}
			}
		}
		if !found {
			return nil, nil, false
		}
		inParent = true
	}
	al, ok := cell.(*ssa.Alloc)
	if !ok || al.Referrers() == nil {
		return nil, nil, false
	}
	var mc *ssa.MakeClosure
	var plain *ssa.Function
	stores := 0
	for _, r := range *al.Referrers() {
		if s, ok := r.(*ssa.Store); ok && s.Addr == al {
			stores++
			if m, ok := s.Val.(*ssa.MakeClosure); ok {
				mc = m
			}
			if f, ok := s.Val.(*ssa.Function); ok {
				plain = f
			}
		}
	}
	if stores == 1 && plain != nil {
		return plain, nil, true
	}
	if stores != 1 || mc == nil {
		return nil, nil, false
	}
	fn := mc.Fn.(*ssa.Function)
	var binds []Val
	if !inParent {
		for _, b := range mc.Bindings {
			if _, ok := st.fr.regs[b]; !ok {
				if _, isConst := b.(*ssa.Const); !isConst {
					return nil, nil, false
				}
			}
			binds = append(binds, st.val(b))
		}
	} else if len(mc.Bindings) > 0 {
		// bindings live in the parent's frame: unknown here; give fresh values of the right types
		for _, b := range mc.Bindings {
			nv := st.freshVal(b.Type(), "bind")
			if pt, ok := b.Type().Underlying().(*types.Pointer); ok {
				nv = st.ptrTo(pt.Elem(), nv.T)
			}
			binds = append(binds, nv)
		}
	}
	return fn, binds, true
}

// dryStepGhostWrites: in the dry pass (loop write sets) of a step-mode function the atomic steps are executed as
// plain memory operations, so the ghost updates attached to them ("atomic k ghost", "at-call ... :=") would be
// missing from the write sets of the enclosing loops. Every ghost location such a clause of the governing
// contracts can assign is recorded as written (an over-approximation: it only costs precision at loop heads).
func (vc *FuncVC) dryStepGhostWrites(st *State) {
	var cons []*Contract
	if vc.con != nil && vc.con.Mode == "step" {
		cons = append(cons, vc.con)
	}
	if st.fr != nil && st.fr.caller != nil {
		if c := vc.g.DB.Funcs[ShortName(st.fr.fn)+"@step"]; c != nil {
			cons = append(cons, c)
		} else if c := vc.g.DB.Funcs[ShortName(st.fr.fn)]; c != nil && c.Mode == "step" {
			cons = append(cons, c)
		}
	}
	if len(cons) == 0 {
		return
	}
	env := st.specEnv(vc.pkg, vc.frameVarsDry(st))
	mark := func(ga *GhostAssign) {
		if ga == nil {
			return
		}
		if l := env.tryLoc(ga.LHS); l != nil && l.Heap != "" {
			if _, known := st.g.heapSort[l.Heap]; !known {
				if srt, ok := st.g.sortOfHeapName(l.Heap); ok {
					st.cur(l.Heap, srt)
				}
			}
			st.markWritten(l.Heap)
			return
		}
		// unresolvable here: every ghost heap may be written
		for _, h := range sortedKeys(st.g.heapSort) {
			if strings.Contains(h, "$") && h != "$alive" && h != "$brk" {
				st.markWritten(h)
			}
		}
	}
	for _, c := range cons {
		for _, as := range c.Atomics {
			for _, a := range as {
				mark(a.GA)
			}
		}
		for _, ac := range c.AtCall {
			mark(ac.GA)
		}
	}
}

func (vc *FuncVC) frameVarsDry(st *State) map[string]SV {
	if st.fr.caller == nil {
		return vc.specVars(st)
	}
	vars := map[string]SV{}
	for _, p := range st.fr.fn.Params {
		if v, ok := st.fr.regs[p]; ok {
			vars[p.Name()] = SV{V: v, T: p.Type()}
		}
	}
	return vars
}

// privateCells: cells of the spawning function's own captured locals that the spawned closure cannot reach: the
// cell's address never escapes (it is only loaded, stored to, or bound into closures) and it is not among the
// spawned closure's bindings. Such a cell is not written by the spawned goroutine whatever its modifies clause says
// about the memory kind the cell lives in.
func (vc *FuncVC) privateCells(st *State, spawned ssa.Value, binds []Val) []roCell {
	var out []roCell
	bound := map[string]bool{}
	for _, b := range binds {
		bound[st.toScalar(b).T] = true
	}
	for _, blk := range st.fr.fn.Blocks {
		for _, in := range blk.Instrs {
			al, ok := in.(*ssa.Alloc)
			if !ok || !al.Heap || al.Referrers() == nil {
				continue
			}
			av, ok := st.fr.regs[al]
			if os.Getenv("GOVC_DBG") != "" {
				fmt.Fprintf(os.Stderr, "alloc %s heap=%v inregs=%v\n", al.Comment, al.Heap, ok)
			}
			if !ok || bound[st.toScalar(av).T] {
				continue
			}
			private := true
			for _, u := range *al.Referrers() {
				switch x := u.(type) {
				case *ssa.UnOp:
					private = private && x.Op == token.MUL
				case *ssa.Store:
					private = private && x.Addr == ssa.Value(al) && x.Val != ssa.Value(al)
				case *ssa.MakeClosure:
					// the closures that capture the cell must not leak its address either
					if cf, ok := x.Fn.(*ssa.Function); ok {
						for bi, b := range x.Bindings {
							if b == ssa.Value(al) && bi < len(cf.FreeVars) {
								private = private && addrStaysLocal(cf.FreeVars[bi], 0)
							}
						}
					} else {
						private = false
					}
				case *ssa.DebugRef:
				default:
					private = false
				}
			}
			if os.Getenv("GOVC_DBG") != "" {
				fmt.Fprintf(os.Stderr, "privateCells %s private=%v refs=%d\n", al.Comment, private, len(*al.Referrers()))
				for _, u := range *al.Referrers() {
					fmt.Fprintf(os.Stderr, "   %T %s\n", u, u)
				}
			}
			if private {
				out = append(out, roCell{addr: av, elem: al.Type().Underlying().(*types.Pointer).Elem()})
			}
		}
	}
	return out
}

// addrStaysLocal: a captured cell pointer is only dereferenced (loaded from / stored to) or captured again by
// nested closures that do the same; it is never stored as a value, passed to a call or compared.
func addrStaysLocal(fv *ssa.FreeVar, depth int) bool {
	if fv.Referrers() == nil {
		return true
	}
	if depth > 4 {
		return false
	}
	for _, u := range *fv.Referrers() {
		switch x := u.(type) {
		case *ssa.UnOp:
			if x.Op != token.MUL {
				return false
			}
		case *ssa.Store:
			if x.Addr != ssa.Value(fv) || x.Val == ssa.Value(fv) {
				return false
			}
		case *ssa.DebugRef:
		case *ssa.MakeClosure:
			cf, ok := x.Fn.(*ssa.Function)
			if !ok {
				return false
			}
			for bi, b := range x.Bindings {
				if b == ssa.Value(fv) && (bi >= len(cf.FreeVars) || !addrStaysLocal(cf.FreeVars[bi], depth+1)) {
					return false
				}
			}
		default:
			return false
		}
	}
	return true
}
