package main

// Translation of spec expressions to SMT terms in the context of a symbolic state.

import (
	"fmt"
	"go/constant"
	"go/types"
	"strings"

	"golang.org/x/tools/go/ssa"
)

type SV struct {
	V     Val
	T     types.Type
	Deref types.Type // non-nil: V is a pointer to a captured variable of this type; specs see the variable itself
}

type SpecEnv struct {
	addrOnly bool // translating the argument of addr(): embedded structs are allowed
	cur   map[string]string // heaps of the enclosing (post) state while inside old(...); used by now(...)
	g     *Gen
	st    *State            // state receiving nothing; used for heap lookups through shadow
	heaps map[string]string // heaps to read
	old   map[string]string // heaps for old(...)
	vars  map[string]SV
	pkg   string
	depth int
	qd    int // quantifier nesting depth (bound variables are named by name and depth, so that the same spec
	// expression always yields the same SMT text and alpha-equivalent assumptions/goals are syntactically equal)
}

var tInt = types.Typ[types.Int]
var tBool = types.Typ[types.Bool]
var tRef = types.Typ[types.UnsafePointer]

type specErr string

func specFail(f string, a ...interface{}) { panic(specErr(fmt.Sprintf(f, a...))) }

func (st *State) specEnv(pkg string, vars map[string]SV) *SpecEnv {
	return &SpecEnv{g: st.g, st: st, heaps: st.heaps, old: st.old, vars: vars, pkg: pkg}
}

// shadow returns a quiet state reading from env.heaps.
func (e *SpecEnv) shadow() *State {
	return &State{g: e.g, heaps: e.heaps, written: map[string]bool{}, quiet: true}
}

func (e *SpecEnv) withVars(extra map[string]SV) *SpecEnv {
	n := *e
	n.vars = make(map[string]SV, len(e.vars)+len(extra))
	for k, v := range e.vars {
		n.vars[k] = v
	}
	for k, v := range extra {
		n.vars[k] = v
	}
	return &n
}

// Bool translates a boolean spec expression, returning an error instead of panicking.
func (e *SpecEnv) Bool(x *Expr) (t string, err error) {
	defer func() {
		if r := recover(); r != nil {
			if se, ok := r.(specErr); ok {
				err = fmt.Errorf("%s", string(se))
				return
			}
			panic(r)
		}
	}()
	sv := e.tr(x)
	if sv.V.K != KBool {
		specFail("expression %s is not boolean", x.String())
	}
	return sv.V.T, nil
}

func (e *SpecEnv) Value(x *Expr) (sv SV, err error) {
	defer func() {
		if r := recover(); r != nil {
			if se, ok := r.(specErr); ok {
				err = fmt.Errorf("%s", string(se))
				return
			}
			panic(r)
		}
	}()
	return e.tr(x), nil
}

func smtSortOf(t types.Type) string {
	if isBool(t) {
		return "Bool"
	}
	if m, ok := t.Underlying().(*types.Map); ok {
		return "(Array " + smtSortOf(m.Key()) + " " + smtSortOf(m.Elem()) + ")"
	}
	return "Int"
}

func (e *SpecEnv) ghostField(named types.Type, name string) *GhostField {
	if g, ok := e.g.DB.Ghosts[typeKey(named)+"."+name]; ok {
		return g
	}
	return nil
}

// fieldOf resolves e.f (real, promoted or ghost) for a value of (pointer to) struct type.
func (e *SpecEnv) fieldOf(x SV, name string) SV {
	sh := e.shadow()
	t := x.T
	if p, ok := t.Underlying().(*types.Pointer); ok {
		t = p.Elem()
	} else if x.V.K == KStruct {
		s := t.Underlying().(*types.Struct)
		for i := 0; i < s.NumFields(); i++ {
			if s.Field(i).Name() == name {
				return SV{V: x.V.Fs[i], T: s.Field(i).Type()}
			}
		}
		specFail("no field %s in struct value of type %s", name, t)
	}
	s, ok := t.Underlying().(*types.Struct)
	if !ok {
		specFail("selector .%s on non-struct type %s", name, x.T)
	}
	if x.V.K != KInt {
		specFail("selector .%s on non-reference value", name)
	}
	// ghost field?
	if gf := e.ghostField(t, name); gf != nil {
		gt, err := e.g.P.lookupType(gf.Typ, gf.Pkg)
		if err != nil {
			specFail("%v", err)
		}
		hn := typeKey(t) + ".$" + name
		h := sh.cur(hn, "(Array Int "+smtSortOf(gt)+")")
		term := fmt.Sprintf("(select %s %s)", h, x.V.T)
		if _, ok := gt.Underlying().(*types.Map); ok {
			return SV{V: Val{K: KArr, T: term}, T: gt}
		}
		if isBool(gt) {
			return SV{V: BoolV(term), T: gt}
		}
		return SV{V: IntV(term), T: gt}
	}
	pk := (*types.Package)(nil)
	if n, ok := t.(*types.Named); ok {
		pk = n.Obj().Pkg()
	}
	obj, index, _ := types.LookupFieldOrMethod(t, true, pk, name)
	fv, ok := obj.(*types.Var)
	if !ok || len(index) == 0 {
		// try ghost fields of embedded structs
		for i := 0; i < s.NumFields(); i++ {
			f := s.Field(i)
			if f.Embedded() {
				sub := e.fieldOf(x, f.Name())
				if r, ok := e.tryField(sub, name); ok {
					return r
				}
			}
		}
		specFail("type %s has no field %s", t, name)
	}
	_ = fv
	cur := x.V.T
	curT := t
	for k, idx := range index {
		cs := curT.Underlying().(*types.Struct)
		f := cs.Field(idx)
		if k == len(index)-1 {
			if _, isStruct := f.Type().Underlying().(*types.Struct); isStruct {
				// embedded struct: its address, typed as a pointer
				return SV{V: IntV(addOff(cur, e.g.P.fieldOffset(cs, idx))), T: types.NewPointer(f.Type())}
			}
			v := sh.loadField(curT, cs, idx, cur)
			return SV{V: v, T: f.Type()}
		}
		// step into embedded
		if p, ok := f.Type().Underlying().(*types.Pointer); ok {
			v := sh.loadField(curT, cs, idx, cur)
			cur = v.T
			curT = p.Elem()
		} else {
			cur = addOff(cur, e.g.P.fieldOffset(cs, idx))
			curT = f.Type()
		}
	}
	panic("unreachable")
}

func (e *SpecEnv) tryField(x SV, name string) (r SV, ok bool) {
	defer func() {
		if rec := recover(); rec != nil {
			if _, is := rec.(specErr); is {
				ok = false
				return
			}
			panic(rec)
		}
	}()
	return e.fieldOf(x, name), true
}

func (e *SpecEnv) lookupIdent(name string) SV {
	if v, ok := e.vars[name]; ok {
		if v.Deref != nil {
			sh := e.shadow()
			return SV{V: sh.derefLoad(v.V, v.Deref), T: v.Deref}
		}
		return v
	}
	if gg, ok := e.g.DB.Ghosts["$g."+name]; ok {
		gt, err := e.g.P.lookupType(gg.Typ, gg.Pkg)
		if err != nil {
			specFail("%v", err)
		}
		sh := e.shadow()
		h := sh.cur("$g."+name, smtSortOf(gt))
		if _, isMap := gt.Underlying().(*types.Map); isMap {
			return SV{V: Val{K: KArr, T: h}, T: gt}
		}
		if isBool(gt) {
			return SV{V: BoolV(h), T: gt}
		}
		return SV{V: IntV(h), T: gt}
	}
	// package-level constant or variable
	if sp, ok := e.g.P.Pkgs[e.pkg]; ok {
		if o := sp.Pkg.Scope().Lookup(name); o != nil {
			return e.objValue(o)
		}
	}
	specFail("unknown identifier %s (package %s)", name, e.pkg)
	return SV{}
}

func (e *SpecEnv) objValue(o types.Object) SV {
	switch c := o.(type) {
	case *types.Const:
		switch c.Val().Kind() {
		case constant.Int:
			s := c.Val().ExactString()
			if strings.HasPrefix(s, "-") {
				s = "(- " + s[1:] + ")"
			}
			return SV{V: IntV(s), T: tInt}
		case constant.Bool:
			if constant.BoolVal(c.Val()) {
				return SV{V: BoolV("true"), T: tBool}
			}
			return SV{V: BoolV("false"), T: tBool}
		case constant.Float:
			if i, ok := constant.Int64Val(constant.ToInt(c.Val())); ok {
				return SV{V: IntV(smtInt(i)), T: tInt}
			}
		}
	case *types.Var:
		sp := e.g.P.Prog.Package(c.Pkg())
		if sp != nil {
			if m, ok := sp.Members[c.Name()]; ok {
				if gl, ok := m.(*ssa.Global); ok {
					sh := e.shadow()
					return SV{V: sh.derefLoad(sh.globalPtr(gl), c.Type()), T: c.Type()}
				}
			}
		}
	}
	specFail("cannot use %s in a spec", o.Name())
	return SV{}
}

func (e *SpecEnv) declUfun(pf *PureFn) (string, types.Type) {
	rt, err := e.g.P.lookupType(pf.Ret, pf.Pkg)
	if err != nil {
		specFail("%v", err)
	}
	n := sym("U:" + pf.Name)
	if !e.g.declared[n] {
		var ps []string
		for _, h := range pf.Reads {
			srt, ok := e.g.sortOfHeapName(h)
			if !ok {
				specFail("ufun %s reads unknown heap %s", pf.Name, h)
			}
			ps = append(ps, srt)
		}
		for _, p := range pf.Params {
			pt, err := e.g.P.lookupType(p.Typ, pf.Pkg)
			if err != nil {
				specFail("%v", err)
			}
			ps = append(ps, smtSortOf(pt))
		}
		e.g.declare(n, fmt.Sprintf("(declare-fun %s (%s) %s)", n, strings.Join(ps, " "), smtSortOf(rt)))
	}
	return n, rt
}

func (e *SpecEnv) tr(x *Expr) SV {
	switch x.Op {
	case "int":
		s := x.Name
		if strings.HasPrefix(s, "0x") {
			var v uint64
			fmt.Sscanf(s, "0x%x", &v)
			s = fmt.Sprint(v)
		}
		return SV{V: IntV(s), T: tInt}
	case "true", "false":
		return SV{V: BoolV(x.Op), T: tBool}
	case "nil":
		return SV{V: IntV("0"), T: tRef}
	case "result":
		return e.lookupIdent("result")
	case "ident":
		return e.lookupIdent(x.Name)
	case "old":
		n := *e
		n.heaps = e.old
		if n.heaps == nil {
			specFail("old() used where no pre-state exists")
		}
		if n.cur == nil {
			n.cur = e.heaps
		}
		return n.tr(x.Args[0])
	case "now":
		// now(e) inside old(...): e is evaluated in the current state
		n := *e
		if e.cur != nil {
			n.heaps = e.cur
			n.cur = nil
		}
		return n.tr(x.Args[0])
	case "cast":
		v := e.tr(x.Args[0])
		t, err := e.g.P.lookupType(x.Typ, e.pkg)
		if err != nil {
			specFail("%v", err)
		}
		return SV{V: v.V, T: t}
	case "sel":
		// package-qualified name?
		if id := x.Args[0]; id.Op == "ident" {
			if _, isVar := e.vars[id.Name]; !isVar {
				if sp, ok := e.g.P.Pkgs[id.Name]; ok {
					if o := sp.Pkg.Scope().Lookup(x.Name); o != nil {
						return e.objValue(o)
					}
				}
				for path, tp := range e.g.P.TPkgs {
					if tp.Name() == id.Name && !strings.Contains(path, "internal") {
						if o := tp.Scope().Lookup(x.Name); o != nil {
							return e.objValue(o)
						}
					}
				}
			}
		}
		return e.fieldOf(e.tr(x.Args[0]), x.Name)
	case "index":
		b := e.tr(x.Args[0])
		i := e.tr(x.Args[1])
		switch u := b.T.Underlying().(type) {
		case *types.Slice:
			sh := e.shadow()
			sz := e.g.P.sizeof(u.Elem())
			a := e.g.elemAddr(b.V.Fs[0].T, i.V.T, sz)
			p := sh.ptrTo(u.Elem(), a)
			return SV{V: sh.derefLoad(p, u.Elem()), T: u.Elem()}
		case *types.Array:
			t := fmt.Sprintf("(select %s %s)", b.V.T, i.V.T)
			if isBool(u.Elem()) {
				return SV{V: BoolV(t), T: u.Elem()}
			}
			return SV{V: IntV(t), T: u.Elem()}
		case *types.Map:
			if b.V.K == KArr { // ghost map
				t := fmt.Sprintf("(select %s %s)", b.V.T, i.V.T)
				if _, nested := u.Elem().Underlying().(*types.Map); nested {
					return SV{V: Val{K: KArr, T: t}, T: u.Elem()}
				}
				if isBool(u.Elem()) {
					return SV{V: BoolV(t), T: u.Elem()}
				}
				return SV{V: IntV(t), T: u.Elem()}
			}
			sh := e.shadow()
			v, _ := sh.mapGet2(u, b.V.T, i.V.T, false)
			return SV{V: v, T: u.Elem()}
		}
		specFail("cannot index value of type %s", b.T)
	case "call":
		return e.call(x)
	case "forall", "exists":
		extra := map[string]SV{}
		var bs, guards []string
		var stateHeaps map[string]string
		for _, b := range x.Binders {
			if b.Typ != nil && b.Typ.Name == "state" && b.Typ.Pkg == "" && !b.Typ.Star && !b.Typ.Slice && b.Typ.Map == nil {
				// a 'state' binder quantifies over the contents of every heap that state-reading ufuns depend on
				stateHeaps = make(map[string]string, len(e.heaps))
				for k, v := range e.heaps {
					stateHeaps[k] = v
				}
				for _, h := range sortedKeys(e.g.DB.StateHeaps) {
					srt, ok := e.g.sortOfHeapName(h)
					if !ok {
						specFail("state binder: unknown heap %s", h)
					}
					e.shadow().cur(h, srt) // make sure the heap is declared
					hn := sym(fmt.Sprintf("q.%s.%s.%d", b.Name, h, e.qd))
					bs = append(bs, fmt.Sprintf("(%s %s)", hn, srt))
					stateHeaps[h] = hn
				}
				continue
			}
			t, err := e.g.P.lookupType(b.Typ, e.pkg)
			if err != nil {
				specFail("%v", err)
			}
			n := sym(fmt.Sprintf("q.%s.%d", b.Name, e.qd))
			bs = append(bs, fmt.Sprintf("(%s %s)", n, smtSortOf(t)))
			if isBool(t) {
				extra[b.Name] = SV{V: BoolV(n), T: t}
			} else if _, isMap := t.Underlying().(*types.Map); isMap {
				extra[b.Name] = SV{V: Val{K: KArr, T: n}, T: t}
			} else {
				extra[b.Name] = SV{V: IntV(n), T: t}
				if isInteger(t) && !(t == tInt) {
					lo, hi := intRange(t)
					guards = append(guards, fmt.Sprintf("(<= %s %s) (<= %s %s)", lo, n, n, hi))
				}
			}
		}
		inner := e.withVars(extra)
		inner.qd = e.qd + 1
		if stateHeaps != nil {
			inner.heaps = stateHeaps
		}
		body := inner.tr(x.Args[0])
		if body.V.K != KBool {
			specFail("quantifier body is not boolean")
		}
		bt := body.V.T
		if len(guards) > 0 {
			g := "(and " + strings.Join(guards, " ") + ")"
			if x.Op == "forall" {
				bt = fmt.Sprintf("(=> %s %s)", g, bt)
			} else {
				bt = fmt.Sprintf("(and %s %s)", g, bt)
			}
		}
		if len(x.Pats) > 0 {
			var ps []string
			for _, grp := range x.Pats {
				var ts []string
				for _, pe := range grp {
					pv := inner.tr(pe)
					ts = append(ts, inner.shadow().toScalar(pv.V).T)
				}
				ps = append(ps, ":pattern ("+strings.Join(ts, " ")+")")
			}
			bt = fmt.Sprintf("(! %s %s)", bt, strings.Join(ps, " "))
		}
		return SV{V: BoolV(fmt.Sprintf("(%s (%s) %s)", x.Op, strings.Join(bs, " "), bt)), T: tBool}
	case "!":
		a := e.tr(x.Args[0])
		return SV{V: BoolV(not(a.V.T)), T: tBool}
	case "neg":
		a := e.tr(x.Args[0])
		return SV{V: IntV(fmt.Sprintf("(- %s)", a.V.T)), T: tInt}
	case "ite":
		c := e.tr(x.Args[0])
		a := e.tr(x.Args[1])
		b := e.tr(x.Args[2])
		r := a
		r.V.T = ite(c.V.T, a.V.T, b.V.T)
		return r
	}
	if len(x.Args) == 2 {
		a := e.tr(x.Args[0])
		b := e.tr(x.Args[1])
		sh := e.shadow()
		av, bv := sh.toScalar(a.V), sh.toScalar(b.V)
		switch x.Op {
		case "&&":
			return SV{V: BoolV(and(av.T, bv.T)), T: tBool}
		case "||":
			return SV{V: BoolV(fmt.Sprintf("(or %s %s)", av.T, bv.T)), T: tBool}
		case "==>":
			return SV{V: BoolV(fmt.Sprintf("(=> %s %s)", av.T, bv.T)), T: tBool}
		case "<==>":
			return SV{V: BoolV(fmt.Sprintf("(= %s %s)", av.T, bv.T)), T: tBool}
		case "==":
			return SV{V: BoolV(eqVals(av, bv)), T: tBool}
		case "!=":
			return SV{V: BoolV(not(eqVals(av, bv))), T: tBool}
		case "<", "<=", ">", ">=":
			return SV{V: BoolV(fmt.Sprintf("(%s %s %s)", x.Op, av.T, bv.T)), T: tBool}
		case "+", "-", "*":
			return SV{V: IntV(fmt.Sprintf("(%s %s %s)", x.Op, av.T, bv.T)), T: tInt}
		case "/":
			return SV{V: IntV(fmt.Sprintf("(div %s %s)", av.T, bv.T)), T: tInt}
		case "%":
			return SV{V: IntV(fmt.Sprintf("(mod %s %s)", av.T, bv.T)), T: tInt}
		}
	}
	specFail("cannot translate %s", x.String())
	return SV{}
}

func (e *SpecEnv) call(x *Expr) SV {
	sh := e.shadow()
	switch x.Name {
	case "len", "cap":
		a := e.tr(x.Args[0])
		if _, isChan := a.T.Underlying().(*types.Chan); isChan && x.Name == "cap" {
			h := sh.cur("chan.cap", "(Array Int Int)")
			return SV{V: IntV(fmt.Sprintf("(select %s %s)", h, a.V.T)), T: tInt}
		}
		if a.V.K != KSlice {
			specFail("%s of non-slice", x.Name)
		}
		if x.Name == "len" {
			return SV{V: a.V.Fs[1], T: tInt}
		}
		return SV{V: a.V.Fs[2], T: tInt}
	case "ptr":
		a := e.tr(x.Args[0])
		if a.V.K != KSlice {
			specFail("ptr of non-slice")
		}
		return SV{V: a.V.Fs[0], T: tRef}
	case "alive":
		a := e.tr(x.Args[0])
		h := sh.cur("$alive", "(Array Int Bool)")
		return SV{V: BoolV(fmt.Sprintf("(select %s %s)", h, sh.toScalar(a.V).T)), T: tBool}
	case "has":
		m := e.tr(x.Args[0])
		k := e.tr(x.Args[1])
		mt, ok := m.T.Underlying().(*types.Map)
		if !ok {
			specFail("has() needs a map")
		}
		_, present := sh.mapGet(mt, m.V.T, k.V.T)
		return SV{V: BoolV(present), T: tBool}
	case "addr":
		// addr(e.f): flat address of a location
		ae := *e
		ae.addrOnly = true
		l := ae.loc(x.Args[0])
		if l.Addr == "" {
			specFail("addr(): location has no flat address")
		}
		return SV{V: IntV(l.Addr), T: tRef}
	case "mem8", "memptr", "mem32", "mem64", "memi32":
		// raw cell access: mem8(a) = mem.uint8[a]
		a := e.tr(x.Args[0])
		key := map[string]string{"mem8": "uint8", "memptr": "ptr", "mem32": "uint32", "mem64": "uint64", "memi32": "int32"}[x.Name]
		h := sh.cur("mem."+key, "(Array Int Int)")
		return SV{V: IntV(fmt.Sprintf("(select %s %s)", h, a.V.T)), T: tInt}
	case "cell":
		// cell(x): address of the cell of a captured (address-taken) variable x
		if id := x.Args[0]; id.Op == "ident" {
			if v, ok := e.vars[id.Name]; ok && v.Deref != nil {
				return SV{V: sh.toScalar(v.V), T: tRef}
			}
		}
		specFail("cell(x): x is not a captured variable")
	case "brk":
		return SV{V: IntV(fmt.Sprintf("(select %s 0)", sh.cur("$brk", "(Array Int Int)"))), T: tInt}
	case "memheap8":
		return SV{V: Val{K: KArr, T: sh.cur("mem.uint8", "(Array Int Int)")}, T: types.NewMap(tInt, tInt)}
	case "store":
		// store(m, k, v) on ghost maps
		m := e.tr(x.Args[0])
		k := e.tr(x.Args[1])
		v := e.tr(x.Args[2])
		return SV{V: Val{K: KArr, T: fmt.Sprintf("(store %s %s %s)", m.V.T, k.V.T, v.V.T)}, T: m.T}
	case "int":
		return e.tr(x.Args[0])
	}
	pf, ok := e.g.DB.Pures[x.Name]
	if !ok {
		specFail("unknown spec function %s", x.Name)
	}
	if len(pf.Params) != len(x.Args) {
		specFail("%s expects %d arguments", x.Name, len(pf.Params))
	}
	if pf.Body == nil {
		n, rt := e.declUfun(pf)
		var as []string
		for _, h := range pf.Reads {
			srt, _ := e.g.sortOfHeapName(h)
			as = append(as, e.shadow().cur(h, srt))
		}
		for _, a := range x.Args {
			as = append(as, sh.toScalar(e.tr(a).V).T)
		}
		t := "(" + n + " " + strings.Join(as, " ") + ")"
		if len(as) == 0 {
			t = n
		}
		if isBool(rt) {
			return SV{V: BoolV(t), T: rt}
		}
		if _, isMap := rt.Underlying().(*types.Map); isMap {
			return SV{V: Val{K: KArr, T: t}, T: rt}
		}
		return SV{V: IntV(t), T: rt}
	}
	if e.depth > 20 {
		specFail("pure function expansion too deep (recursive?) at %s", x.Name)
	}
	vars := map[string]SV{}
	for i, p := range pf.Params {
		pt, err := e.g.P.lookupType(p.Typ, pf.Pkg)
		if err != nil {
			specFail("%v", err)
		}
		a := e.tr(x.Args[i])
		vars[p.Name] = SV{V: a.V, T: pt}
	}
	n := *e
	n.vars = vars
	n.pkg = pf.Pkg
	n.depth = e.depth + 1
	r := n.tr(pf.Body)
	if rt, err := e.g.P.lookupType(pf.Ret, pf.Pkg); err == nil {
		r.T = rt
	}
	return r
}

// loc translates an expression denoting a memory location (for modifies / ghost assignment).
func (e *SpecEnv) loc(x *Expr) *Loc {
	sh := e.shadow()
	switch x.Op {
	case "ident":
		if v, ok := e.vars[x.Name]; ok && v.Deref != nil {
			// captured (address-taken) variable: its cell
			return sh.asLoc(v.V, v.Deref)
		}
		if gg, ok := e.g.DB.Ghosts["$g."+x.Name]; ok {
			if _, shadowed := e.vars[x.Name]; !shadowed {
				gt, err := e.g.P.lookupType(gg.Typ, gg.Pkg)
				if err != nil {
					specFail("%v", err)
				}
				return &Loc{Heap: "$g." + x.Name, Idx: "", Typ: gt, Whole: true}
			}
		}
	case "sel":
		b := e.tr(x.Args[0])
		t := b.T
		if p, ok := t.Underlying().(*types.Pointer); ok {
			t = p.Elem()
		}
		s, ok := t.Underlying().(*types.Struct)
		if !ok || b.V.K != KInt {
			specFail("location %s: base is not a struct reference", x.String())
		}
		if gf := e.ghostField(t, x.Name); gf != nil {
			gt, err := e.g.P.lookupType(gf.Typ, gf.Pkg)
			if err != nil {
				specFail("%v", err)
			}
			return &Loc{Heap: typeKey(t) + ".$" + x.Name, Idx: b.V.T, Typ: gt}
		}
		pk := (*types.Package)(nil)
		if n, ok := t.(*types.Named); ok {
			pk = n.Obj().Pkg()
		}
		_, index, _ := types.LookupFieldOrMethod(t, true, pk, x.Name)
		if len(index) == 0 {
			specFail("type %s has no field %s", t, x.Name)
		}
		cur, curT := b.V.T, t
		for k, idx := range index {
			cs := curT.Underlying().(*types.Struct)
			f := cs.Field(idx)
			if k == len(index)-1 {
				fa := sh.fieldAddr(curT, cs, idx, cur)
				if fa.K == KLoc {
					return fa.Loc
				}
				if e.addrOnly && fa.K == KInt {
					return &Loc{Heap: "$embedded", Idx: fa.T, Addr: fa.T, Typ: f.Type()}
				}
				specFail("location %s is an embedded struct; name its fields", x.String())
			}
			if p, ok := f.Type().Underlying().(*types.Pointer); ok {
				cur = sh.loadField(curT, cs, idx, cur).T
				curT = p.Elem()
			} else {
				cur = addOff(cur, e.g.P.fieldOffset(cs, idx))
				curT = f.Type()
			}
		}
		_ = s
	case "index":
		i := e.tr(x.Args[1])
		// ghost global: g[i] or g[i][j]
		if b := x.Args[0]; b.Op == "ident" {
			if gg, ok := e.g.DB.Ghosts["$g."+b.Name]; ok {
				if _, shadowed := e.vars[b.Name]; !shadowed {
					gt, _ := e.g.P.lookupType(gg.Typ, gg.Pkg)
					if mt, ok := gt.Underlying().(*types.Map); ok {
						return &Loc{Heap: "$g." + b.Name, Idx: i.V.T, Typ: mt.Elem()}
					}
				}
			}
		} else if b.Op == "index" && b.Args[0].Op == "ident" {
			if gg, ok := e.g.DB.Ghosts["$g."+b.Args[0].Name]; ok {
				gt, _ := e.g.P.lookupType(gg.Typ, gg.Pkg)
				if mt, ok := gt.Underlying().(*types.Map); ok {
					if mt2, ok := mt.Elem().Underlying().(*types.Map); ok {
						j := e.tr(b.Args[1])
						return &Loc{Heap: "$g." + b.Args[0].Name, Idx: j.V.T, Sub: i.V.T, Typ: mt2.Elem()}
					}
				}
			}
		}
		// ghost map element or array field element or slice element
		if x.Args[0].Op == "sel" {
			if bl := e.tryLoc(x.Args[0]); bl != nil {
				switch u := bl.Typ.Underlying().(type) {
				case *types.Map:
					return &Loc{Heap: bl.Heap, Idx: bl.Idx, Sub: i.V.T, Typ: u.Elem()}
				case *types.Array:
					return &Loc{Heap: bl.Heap, Idx: bl.Idx, Sub: i.V.T, Typ: u.Elem()}
				}
			}
		}
		b := e.tr(x.Args[0])
		if sl, ok := b.T.Underlying().(*types.Slice); ok {
			a := e.g.elemAddr(b.V.Fs[0].T, i.V.T, e.g.P.sizeof(sl.Elem()))
			p := sh.ptrTo(sl.Elem(), a)
			if p.K == KLoc {
				return p.Loc
			}
		}
	}
	specFail("expression %s does not denote a location", x.String())
	return nil
}

func (e *SpecEnv) tryLoc(x *Expr) (l *Loc) {
	defer func() {
		if r := recover(); r != nil {
			if _, ok := r.(specErr); ok {
				l = nil
				return
			}
			panic(r)
		}
	}()
	return e.loc(x)
}
