package main

// Per-function VC generation: path exploration between cut points, loop invariants, contract checking.

import (
	"context"
	"fmt"
	"go/constant"
	"go/token"
	"go/types"
	"os"
	"path/filepath"
	"sort"
	"strings"
	"time"

	"golang.org/x/tools/go/ssa"
)

type Obligation struct {
	Name   string // "<func>#<kind>[label]"
	Func   string
	Kind   string
	NDecl  int
	PC     []string
	Goal   string
	Info   string
	Path   int
	Log    string
	Cover  bool // reachability cover: expected sat
	Result string
	Ms     int64
	Solver string
	Model  string
	File   string
}

type loopInfo struct {
	ord    int
	header *ssa.BasicBlock
	blocks map[*ssa.BasicBlock]bool
	writes map[string]bool
}

type dryRun struct {
	vc *FuncVC
}

func (d *dryRun) write(h string) {
	for _, l := range d.vc.loops {
		if d.vc.curBlock != nil && l.blocks[d.vc.curBlock] {
			l.writes[h] = true
		}
	}
}

type FuncVC struct {
	cparams       map[*ssa.Function]map[string]bool
	g             *Gen
	fn            *ssa.Function
	con           *Contract
	name          string
	pkg           string
	obls          []*Obligation
	trivial       map[string]int
	loops         []*loopInfo
	loopOf        map[*ssa.BasicBlock]*loopInfo
	paths         int
	errs          []string
	curBlock      *ssa.BasicBlock
	entryVars     map[string]SV
	usedContracts map[string]*Contract
	maxPaths      int
	truncated     bool
	visits        map[*ssa.BasicBlock]int
	nFeas, pruned int
	curBinds      []Val
	step          *stepCtx
	curInstr      ssa.Instruction
	pendingAt     ssa.CallInstruction
	pendingFr     *Frame
	storeOrd      map[ssa.Instruction]int
	cutStarted    map[int]bool
	entryPC       int
}

func (vc *FuncVC) addTrivial(name string) { vc.trivial[name]++ }

func (vc *FuncVC) addObligation(kind string, st *State, goal, info string) {
	pc := append([]string(nil), st.pc...)
	for _, ax := range st.axioms {
		use := false
		for _, u := range vc.con.Uses {
			if u == ax.name {
				use = true // "use a": every obligation of the function
			}
		}
		for _, fu := range vc.con.Forced { // "use! a for pat": only obligations whose kind contains pat
			if strings.Contains(kind, fu.Pat) {
				for _, n := range fu.Names {
					if n == ax.name {
						use = true
					}
				}
			}
		}
		if use {
			pc = append(pc, ax.term)
		}
	}
	vc.obls = append(vc.obls, &Obligation{Name: vc.name + "#" + kind, Func: vc.name, Kind: kind, NDecl: len(vc.g.decls),
		PC: pc, Goal: goal, Info: info, Path: vc.paths, Log: strings.Join(st.pathLog, " ")})
}

func (vc *FuncVC) findLoops() {
	fn := vc.fn
	vc.loopOf = map[*ssa.BasicBlock]*loopInfo{}
	byHeader := map[*ssa.BasicBlock]*loopInfo{}
	for _, b := range fn.Blocks {
		for _, s := range b.Succs {
			if s.Dominates(b) { // back edge b -> s
				li := byHeader[s]
				if li == nil {
					li = &loopInfo{header: s, blocks: map[*ssa.BasicBlock]bool{s: true}, writes: map[string]bool{}}
					byHeader[s] = li
				}
				// natural loop: nodes that reach b without passing through s
				stack := []*ssa.BasicBlock{b}
				for len(stack) > 0 {
					x := stack[len(stack)-1]
					stack = stack[:len(stack)-1]
					if li.blocks[x] {
						continue
					}
					li.blocks[x] = true
					stack = append(stack, x.Preds...)
				}
			}
		}
	}
	pos := func(b *ssa.BasicBlock) int {
		best := 1 << 30
		for _, in := range b.Instrs {
			if p := in.Pos(); p.IsValid() && int(p) < best {
				best = int(p)
			}
		}
		if best == 1<<30 {
			// fall back to the position of the first instruction in any loop block
			return 1<<29 + b.Index
		}
		return best
	}
	for _, li := range byHeader {
		vc.loops = append(vc.loops, li)
	}
	minPos := func(li *loopInfo) int {
		best := 1 << 30
		for b := range li.blocks {
			if p := pos(b); p < best {
				best = p
			}
		}
		return best
	}
	sort.Slice(vc.loops, func(i, j int) bool {
		pi, pj := minPos(vc.loops[i]), minPos(vc.loops[j])
		if pi != pj {
			return pi < pj
		}
		return vc.loops[i].header.Index < vc.loops[j].header.Index
	})
	for i, li := range vc.loops {
		li.ord = i + 1
		vc.loopOf[li.header] = li
	}
}

// specVars returns the variables visible to specs at the current point: params, named locals.
func (vc *FuncVC) specVars(st *State) map[string]SV {
	vars := map[string]SV{}
	for k, v := range vc.entryVars {
		vars[k] = v
	}
	fr := st.fr
	for fr.caller != nil {
		fr = fr.caller
	}
	for k, v := range fr.locals {
		if ev, ok := vc.entryVars[k]; ok && ev.Deref != nil {
			continue // captured by reference: the spec name denotes the variable's current value
		}
		vars[k] = SV{V: v, T: fr.localT[k]}
	}
	for k, v := range fr.localAddr {
		if false && vc.constParam(fr.fn, k) {
			continue // parameter spilled to a cell (captured by a closure) and never reassigned: the name denotes its value
		}
		vars[k] = v
	}
	return vars
}

// constParam: name is a parameter of fn whose spill cell (if any) is only written by the initial store.
func (vc *FuncVC) constParam(fn *ssa.Function, name string) bool {
	if vc.cparams == nil {
		vc.cparams = map[*ssa.Function]map[string]bool{}
	}
	m, ok := vc.cparams[fn]
	if !ok {
		m = map[string]bool{}
		for _, p := range fn.Params {
			stores := 0
			for _, b := range fn.Blocks {
				for _, in := range b.Instrs {
					if s, ok := in.(*ssa.Store); ok {
						if al, ok := s.Addr.(*ssa.Alloc); ok && al.Comment == p.Name() {
							stores++
							if s.Val != p {
								stores++
							}
						}
					}
				}
			}
			escapes := false
			for _, af := range fn.AnonFuncs {
				for _, fv := range af.FreeVars {
					if fv.Name() == p.Name() {
						for _, b := range af.Blocks {
							for _, in := range b.Instrs {
								if s, ok := in.(*ssa.Store); ok && s.Addr == ssa.Value(fv) {
									escapes = true
								}
							}
						}
					}
				}
			}
			m[p.Name()] = stores <= 1 && !escapes
		}
		vc.cparams[fn] = m
	}
	return m[name]
}

func (vc *FuncVC) checkClauses(st *State, env *SpecEnv, cls []*Clause, kind string) {
	for _, c := range cls {
		t, err := env.Bool(c.E)
		if err != nil {
			vc.errs = append(vc.errs, fmt.Sprintf("%s %s[%s]: %v", vc.name, kind, c.Label, err))
			continue
		}
		st.oblige(fmt.Sprintf("%s[%s]", kind, c.Label), t, c.Src)
	}
}

func (vc *FuncVC) assumeClauses(st *State, env *SpecEnv, cls []*Clause, kind string) {
	for _, c := range cls {
		t, err := env.Bool(c.E)
		if err != nil {
			vc.errs = append(vc.errs, fmt.Sprintf("%s %s[%s]: %v", vc.name, kind, c.Label, err))
			continue
		}
		st.assume(t)
	}
}

func (vc *FuncVC) ghostAssign(st *State, env *SpecEnv, gs []*GhostAssign) {
	for _, ga := range gs {
		if ga.SuchThat {
			l := env.tryLoc(ga.LHS)
			if l == nil {
				vc.errs = append(vc.errs, fmt.Sprintf("%s ghost %s: left side is not a location", vc.name, ga.Src))
				continue
			}
			if !strings.Contains(l.Heap, "$") {
				vc.errs = append(vc.errs, fmt.Sprintf("%s ghost %s: ':|' is only allowed on ghost state", vc.name, ga.Src))
				continue
			}
			// in the predicate, old(e) denotes the value of e just before this ghost step
			pre := make(map[string]string, len(st.heaps))
			for k, v := range st.heaps {
				pre[k] = v
			}
			vc.havocLoc(st, l)
			env.heaps = st.heaps
			savedOld := env.old
			env.old = pre
			t, err := env.Bool(ga.RHS)
			if err == nil && ga.Cond != nil {
				// conditional choice: unchanged when the condition (evaluated before the step) is false
				penv := *env
				penv.heaps = pre
				c, cerr := penv.Bool(ga.Cond)
				nv, e1 := env.Value(ga.LHS)
				ov, e2 := penv.Value(ga.LHS)
				if cerr != nil || e1 != nil || e2 != nil {
					err = fmt.Errorf("conditional ghost choice: %v %v %v", cerr, e1, e2)
				} else {
					t = fmt.Sprintf("(ite %s %s %s)", c, t, eqVals(nv.V, ov.V))
				}
			}
			env.old = savedOld
			if err != nil {
				vc.errs = append(vc.errs, fmt.Sprintf("%s ghost %s: %v", vc.name, ga.Src, err))
				continue
			}
			// the chosen value must exist: reachability cover (expected sat) guards against a vacuous choice
			if st.dry == nil {
				vc.obls = append(vc.obls, &Obligation{Name: vc.name + "#cover[ghost-choice]", Func: vc.name, Kind: "cover[ghost-choice]", NDecl: len(vc.g.decls),
					PC: append(append([]string(nil), st.pc...), t), Goal: "false", Cover: true, Info: ga.Src})
			}
			st.assume(t)
			continue
		}
		// evaluate all RHS in the state before this assignment
		rv, err := env.Value(ga.RHS)
		if err != nil {
			vc.errs = append(vc.errs, fmt.Sprintf("%s ghost %s: %v", vc.name, ga.Src, err))
			continue
		}
		l := env.tryLoc(ga.LHS)
		if l == nil {
			vc.errs = append(vc.errs, fmt.Sprintf("%s ghost %s: left side is not a location", vc.name, ga.Src))
			continue
		}
		newT := rv.V.T
		if l.Whole {
			if ga.Cond != nil {
				c, err := env.Bool(ga.Cond)
				if err != nil {
					vc.errs = append(vc.errs, fmt.Sprintf("%s ghost %s: %v", vc.name, ga.Src, err))
					continue
				}
				newT = ite(c, newT, st.cur(l.Heap, smtSortOf(l.Typ)))
			}
			st.cur(l.Heap, smtSortOf(l.Typ))
			st.setHeap(l.Heap, smtSortOf(l.Typ), newT)
			env.heaps = st.heaps
			continue
		}
		if ga.Cond != nil {
			c, err := env.Bool(ga.Cond)
			if err != nil {
				vc.errs = append(vc.errs, fmt.Sprintf("%s ghost %s: %v", vc.name, ga.Src, err))
				continue
			}
			sh := env.shadow()
			var oldT string
			if _, isMap := l.Typ.Underlying().(*types.Map); isMap && l.Sub == "" {
				oldT = fmt.Sprintf("(select %s %s)", sh.cur(l.Heap, locSort(l)), l.Idx)
			} else {
				oldT = sh.loadLoc(l).T
			}
			newT = ite(c, newT, oldT)
		}
		sortS := locSort(l)
		h := st.cur(l.Heap, sortS)
		if l.Sub != "" {
			st.setHeap(l.Heap, sortS, fmt.Sprintf("(store %s %s (store (select %s %s) %s %s))", h, l.Idx, h, l.Idx, l.Sub, newT))
		} else {
			st.setHeap(l.Heap, sortS, fmt.Sprintf("(store %s %s %s)", h, l.Idx, newT))
		}
		env.heaps = st.heaps
	}
}

// VerifyFunc generates all obligations of one function under contract.
func VerifyFunc(g *Gen, fn *ssa.Function, con *Contract, maxPaths int) *FuncVC {
	vc := &FuncVC{g: g, fn: fn, con: con, name: ShortName(fn), trivial: map[string]int{}, usedContracts: map[string]*Contract{},
		maxPaths: maxPaths, visits: map[*ssa.BasicBlock]int{}}
	if pk := fnPkg(fn); pk != nil {
		vc.pkg = pk.Name()
	}
	if fn.Blocks == nil {
		vc.errs = append(vc.errs, vc.name+": function has no body")
		return vc
	}
	defer func() {
		if r := recover(); r != nil {
			if se, ok := r.(specErr); ok {
				vc.errs = append(vc.errs, vc.name+": "+string(se))
				return
			}
			vc.errs = append(vc.errs, fmt.Sprintf("%s: engine: %v", vc.name, r))
			if debugPanics {
				panic(r)
			}
		}
	}()
	vc.findLoops()
	// pass 1: dry run for loop write sets
	if len(vc.loops) > 0 && con.Bounded == 0 {
		st := vc.initState()
		st.dry = &dryRun{vc}
		vc.cutStarted = map[int]bool{}
		vc.explore(st, fn.Blocks[0], 0, nil, nil)
		vc.paths = 0
		vc.obls = nil
		vc.trivial = map[string]int{}
		vc.truncated = false
		vc.errs = nil
	}
	for k := range con.Loops {
		if k < 1 || k > len(vc.loops) {
			vc.errs = append(vc.errs, fmt.Sprintf("%s: contract names loop %d but the function has %d loops", vc.name, k, len(vc.loops)))
		}
	}
	if con.Bounded == 0 {
		for _, li := range vc.loops {
			if ls := con.Loops[li.ord]; ls == nil || len(ls.Invariants) == 0 {
				vc.errs = append(vc.errs, fmt.Sprintf("%s: loop %d has no invariant", vc.name, li.ord))
			}
		}
	}
	// pass 2
	st := vc.initState()
	env := st.specEnv(vc.pkg, vc.entryVars)
	uses := append([]string{}, con.Uses...)
	for _, fu := range con.Forced {
		for _, n := range fu.Names {
			dup := false
			for _, u := range uses {
				dup = dup || u == n
			}
			if !dup {
				uses = append(uses, n)
			}
		}
	}
	for _, u := range uses {
		if err := assumeAxiom(st, g.DB, u); err != nil {
			vc.errs = append(vc.errs, vc.name+": "+err.Error())
		}
	}
	if con.Mode == "step" {
		vc.setupStep()
		if vc.step != nil {
			st.step = &stepState{prev: map[string]string{}, held: map[string]bool{}}
			for _, c := range vc.step.spec.Invs {
				if t, err := env.Bool(c.E); err == nil {
					st.assume(t)
				} else {
					vc.errs = append(vc.errs, fmt.Sprintf("inv %s: %v", c.Label, err))
				}
			}
			// single-state rely clauses (environment assumptions such as bounds) also hold at entry
			for _, c := range vc.step.spec.Relies {
				if strings.Contains(c.Src, "old(") {
					continue
				}
				if t, err := env.Bool(c.E); err == nil {
					st.assume(t)
				}
			}
		}
	}
	vc.assumeClauses(st, env, con.Requires, "requires")
	vc.assumeClauses(st, env, con.Assumes, "assume")
	for _, a := range con.Assumes {
		g.note("assumed (unchecked) in " + vc.name + ": [" + a.Label + "] " + a.Src)
	}
	// reachability cover of the precondition
	vc.obls = append(vc.obls, &Obligation{Name: vc.name + "#cover[requires]", Func: vc.name, Kind: "cover[requires]", NDecl: len(g.decls),
		PC: append([]string(nil), st.pc...), Goal: "false", Cover: true})
	if len(con.GhostPre) > 0 {
		vc.ghostAssign(st, env, con.GhostPre)
	}
	st.old = make(map[string]string, len(st.heaps))
	for k, v := range st.heaps {
		st.old[k] = v
	}
	st.written = map[string]bool{}
	vc.entryPC = len(st.pc)
	vc.cutStarted = map[int]bool{}
	vc.explore(st, fn.Blocks[0], 0, nil, nil)
	return vc
}

var debugPanics = false

func (vc *FuncVC) initState() *State {
	g := vc.g
	st := &State{g: g, heaps: map[string]string{}, written: map[string]bool{}, loopSt: map[int]*loopEntry{}, vc: vc}
	fr := &Frame{fn: vc.fn, regs: map[ssa.Value]Val{}, locals: map[string]Val{}, localT: map[string]types.Type{}}
	st.fr = fr
	vc.entryVars = map[string]SV{}
	for _, p := range vc.fn.Params {
		v := st.freshVal(p.Type(), "p."+p.Name())
		switch u := p.Type().Underlying().(type) {
		case *types.Slice:
			st.belowBrk(v.Fs[0].T, mulC(v.Fs[2].T, g.P.sizeof(u.Elem())))
			st.assume(fmt.Sprintf("(=> (= %s 0) (= %s 0))", v.Fs[0].T, v.Fs[2].T))
		case *types.Pointer:
			st.belowBrk(v.T, fmt.Sprint(g.P.sizeof(u.Elem())))
		}
		fr.regs[p] = v
		vc.entryVars[p.Name()] = SV{V: v, T: p.Type()}
	}
	for _, fv := range vc.fn.FreeVars {
		v := st.freshVal(fv.Type(), "fv."+fv.Name())
		if pt, ok := fv.Type().Underlying().(*types.Pointer); ok {
			st.belowBrk(v.T, fmt.Sprint(g.P.sizeof(pt.Elem())))
			st.assume(fmt.Sprintf("(> %s 0)", v.T))
			v = st.ptrTo(pt.Elem(), v.T)
		}
		fr.free = append(fr.free, v)
		sv := SV{V: v, T: fv.Type()}
		if pt, ok := fv.Type().Underlying().(*types.Pointer); ok {
			sv.Deref = pt.Elem() // captured by reference: specs name the variable, not its address
		}
		vc.entryVars[fv.Name()] = sv
	}
	return st
}

func (vc *FuncVC) isTop(st *State) bool { return st.fr.caller == nil }

// explore runs from instruction idx of block b. outs != nil for inlined frames.
func (vc *FuncVC) explore(st *State, b *ssa.BasicBlock, idx int, prev *ssa.BasicBlock, outs *[]outcome) {
	if vc.paths > vc.maxPaths {
		vc.truncated = true
		return
	}
	top := vc.isTop(st)
	if idx == 0 {
		if top {
			vc.curBlock = b
		}
		// phis (simultaneous)
		var phis []*ssa.Phi
		for _, in := range b.Instrs {
			if p, ok := in.(*ssa.Phi); ok {
				phis = append(phis, p)
			} else if _, ok := in.(*ssa.DebugRef); !ok {
				break
			}
		}
		if prev != nil && len(phis) > 0 {
			pi := -1
			for i, p := range b.Preds {
				if p == prev {
					pi = i
				}
			}
			vals := make([]Val, len(phis))
			for i, p := range phis {
				vals[i] = st.val(p.Edges[pi])
			}
			for i, p := range phis {
				st.fr.regs[p] = vals[i]
				if p.Comment != "" && st.fr.locals != nil {
					st.fr.locals[p.Comment] = vals[i]
					st.fr.localT[p.Comment] = p.Type()
				}
			}
		}
		if top {
			if li := vc.loopOf[b]; li != nil && vc.con.Bounded > 0 {
				vc.visits[b]++
				n := 0
				for _, l := range st.pathLog {
					if l == fmt.Sprintf("L%d", li.ord) {
						n++
					}
				}
				if n > vc.con.Bounded {
					return // bounded stand-in: deeper unrollings are not explored
				}
				st.pathLog = append(st.pathLog, fmt.Sprintf("L%d", li.ord))
			} else if li != nil {
				if !vc.loopCut(st, li, prev, phis) {
					vc.paths++
					return
				}
			}
		}
	}
	for i := idx; i < len(b.Instrs); i++ {
		in := b.Instrs[i]
		if top {
			vc.curBlock = b
		}
		switch x := in.(type) {
		case *ssa.Phi:
			continue
		case *ssa.DebugRef:
			if st.fr.locals != nil {
				if id, ok := x.Expr.(interface{ String() string }); ok && !x.IsAddr {
					_ = id
				}
				if obj := x.Object(); obj != nil && x.IsAddr {
					// address-taken local (captured by a closure): specs name the variable, read through its cell
					if tv, isVar := obj.(*types.Var); isVar && !tv.IsField() {
						if v, ok := st.fr.regs[x.X]; ok {
							if st.fr.localAddr == nil {
								st.fr.localAddr = map[string]SV{}
							}
							if pt, ok := x.X.Type().Underlying().(*types.Pointer); ok {
								st.fr.localAddr[obj.Name()] = SV{V: v, T: x.X.Type(), Deref: pt.Elem()}
								if st.fr.addrSrc == nil {
									st.fr.addrSrc = map[string]ssa.Value{}
								}
								st.fr.addrSrc[obj.Name()] = x.X
							}
						}
					}
				}
				if obj := x.Object(); obj != nil && !x.IsAddr {
					if tv, isVar := obj.(*types.Var); isVar && !tv.IsField() {
						if v, ok := st.fr.regs[x.X]; ok {
							st.fr.locals[obj.Name()] = v
							st.fr.localT[obj.Name()] = x.X.Type()
							if st.fr.localSrc == nil {
								st.fr.localSrc = map[string]ssa.Value{}
							}
							st.fr.localSrc[obj.Name()] = x.X
						} else if c, ok := x.X.(*ssa.Const); ok {
							st.fr.locals[obj.Name()] = st.constVal(c)
							st.fr.localT[obj.Name()] = c.Type()
						}
					}
				}
			}
			continue
		case ssa.CallInstruction:
			if _, isDefer := x.(*ssa.Defer); isDefer {
				st.execInstr(in)
				continue
			}
			if gs, isGo := x.(*ssa.Go); isGo {
				vc.goStmt(st, gs)
				continue
			}
			if top {
				vc.pendingAt = nil // (calls inside an inlined step callee must not drop the pending at-call ghost)
			}
			if top && len(vc.con.AtCall) > 0 {
				if vc.step != nil && st.step != nil && st.dry == nil {
					vc.pendingAt = x // applied inside the step, after the interference that precedes it
					vc.pendingFr = st.fr
				} else {
					vc.atCall(st, x)
				}
			} else if !top && vc.step != nil && st.step != nil && st.dry == nil && vc.pendingAt == nil {
				// a call inside an inlined step callee: the callee's step contract may attach ghost updates to it
				if c := vc.stepContract(st); c != nil && len(c.AtCall) > 0 {
					vc.pendingAt = x
					vc.pendingFr = st.fr
				}
			}
			vc.curInstr = in
			res := vc.doCall(st, x)
			for k, o := range res {
				if o.st.dead {
					continue
				}
				if v := x.Value(); v != nil {
					o.st.fr.regs[v] = o.res
				}
				_ = k
				vc.explore(o.st, b, i+1, prev, outs)
			}
			return
		case *ssa.RunDefers:
			res := []*State{st}
			for k := len(st.fr.defers) - 1; k >= 0; k-- {
				d := st.fr.defers[k]
				var next []*State
				for _, s := range res {
					var resT types.Type = d.call.Signature().Results()
					if rs := d.call.Signature().Results(); rs.Len() == 1 {
						resT = rs.At(0).Type()
					}
					for _, o := range vc.callCommon(s, d.call, d.args, resT, d.fnv) {
						next = append(next, o.st)
					}
				}
				res = next
			}
			for _, s := range res {
				s.fr.defers = nil
				vc.explore(s, b, i+1, prev, outs)
			}
			return
		case *ssa.If:
			c := st.val(x.Cond)
			switch c.T {
			case "true":
				vc.explore(st, b.Succs[0], 0, b, outs)
			case "false":
				vc.explore(st, b.Succs[1], 0, b, outs)
			default:
				s2 := st.clone()
				st.assume(c.T)
				st.pathLog = append(st.pathLog, fmt.Sprintf("b%d:T", b.Index))
				if vc.feasible(st) {
					vc.explore(st, b.Succs[0], 0, b, outs)
				}
				s2.assume(not(c.T))
				s2.pathLog = append(s2.pathLog, fmt.Sprintf("b%d:F", b.Index))
				if vc.feasible(s2) {
					vc.explore(s2, b.Succs[1], 0, b, outs)
				}
			}
			return
		case *ssa.Jump:
			vc.explore(st, b.Succs[0], 0, b, outs)
			return
		case *ssa.Return:
			var res Val
			switch len(x.Results) {
			case 0:
				res = Val{K: KTuple}
			case 1:
				res = st.val(x.Results[0])
			default:
				res = Val{K: KTuple}
				for _, r := range x.Results {
					res.Fs = append(res.Fs, st.val(r))
				}
			}
			if outs != nil {
				*outs = append(*outs, outcome{st, res})
				return
			}
			vc.finish(st, res)
			return
		case *ssa.Panic:
			msg := "explicit"
			if mi, ok := x.X.(*ssa.MakeInterface); ok {
				if c, ok := mi.X.(*ssa.Const); ok && c.Value != nil && c.Value.Kind() == constant.String {
					m := constant.StringVal(c.Value)
					if len(m) > 28 {
						m = m[:28]
					}
					msg = "panic:" + strings.Map(func(r rune) rune {
						if r == ' ' {
							return '-'
						}
						if r == '[' || r == ']' {
							return -1
						}
						return r
					}, m)
				}
			}
			st.oblige("nopanic["+msg+"]", "false", "explicit panic")
			if top {
				vc.paths++
			}
			return
		default:
			st.execInstr(in)
			if top {
				vc.chanHooks(st, in)
				// heap-allocated (captured) local variable: specs name it through its cell
				if al, ok := in.(*ssa.Alloc); ok && al.Heap && al.Comment != "" && st.fr.locals != nil {
					switch al.Comment {
					case "varargs", "makeslice", "complit", "slicelit", "new":
					default:
						if pt, ok := al.Type().Underlying().(*types.Pointer); ok {
							if st.fr.localAddr == nil {
								st.fr.localAddr = map[string]SV{}
							}
							if st.fr.addrSrc == nil {
								st.fr.addrSrc = map[string]ssa.Value{}
							}
							st.fr.localAddr[al.Comment] = SV{V: st.fr.regs[al], T: al.Type(), Deref: pt.Elem()}
							st.fr.addrSrc[al.Comment] = al
						}
					}
				}
				// range-over-slice loops: the hidden length register is visible to specs as "rangelen"
				if bo, ok := in.(*ssa.BinOp); ok && b.Comment == "rangeindex.loop" && bo.Op == token.LSS && st.fr.locals != nil {
					if yv, ok := st.fr.regs[bo.Y]; ok {
						st.fr.locals["rangelen"] = yv
						st.fr.localT["rangelen"] = bo.Y.Type()
						if st.fr.localSrc == nil {
							st.fr.localSrc = map[string]ssa.Value{}
						}
						st.fr.localSrc["rangelen"] = bo.Y
					}
				}
			}
			if st.step != nil && st.step.pending != "" && st.dry == nil {
				// a plain write to shared state is a step of its own
				vc.stepCheck(st, fmt.Sprintf("%s.w%d", shortTail(ShortName(st.fr.fn)), vc.storeOrdinal(st.fr.fn, in)), st.step.prev)
			}
		}
	}
}

// calleeKeys returns the names under which a call site can be addressed by at-call clauses.
func (vc *FuncVC) calleeKeys(st *State, c ssa.CallInstruction) []string {
	cc := c.Common()
	var keys []string
	if cc.IsInvoke() {
		keys = append(keys, "("+typeKey(cc.Value.Type())+")."+cc.Method.Name())
		if fn := vc.resolveInvoke(cc); fn != nil {
			keys = append(keys, ShortName(fn))
		}
		return keys
	}
	switch v := cc.Value.(type) {
	case *ssa.Function:
		keys = append(keys, ShortName(v))
	case *ssa.Builtin:
	default:
		fv := st.val(cc.Value)
		if fv.Clo != nil {
			keys = append(keys, ShortName(fv.Clo.Fn.(*ssa.Function)))
		}
		if fv.Src != "" {
			keys = append(keys, "field:"+fv.Src)
		}
		keys = append(keys, "type:"+typeKey(cc.Value.Type()))
	}
	return keys
}

func (vc *FuncVC) atCall(st *State, c ssa.CallInstruction) {
	con := vc.con
	inl := st.fr.caller != nil
	if inl {
		con = vc.stepContract(st) // inlined step callee: its own at-call clauses, over its own parameters
		if con == nil {
			return
		}
	}
	keys := vc.calleeKeys(st, c)
	for _, ac := range con.AtCall {
		for _, k := range keys {
			if k == ac.Callee || strings.HasSuffix(k, ac.Callee) {
				vars := vc.specVars(st)
				if inl {
					vars = vc.frameVars(st)
				}
				for i, a := range c.Common().Args {
					vars[fmt.Sprintf("arg%d", i)] = SV{V: st.val(a), T: a.Type()}
				}
				env := st.specEnv(vc.pkg, vars)
				if ac.Assert != nil {
					if t, err := env.Bool(ac.Assert.E); err == nil {
						st.oblige(fmt.Sprintf("at-call[%s].assert[%s]", shortTail(ac.Callee), ac.Assert.Label), t, ac.Assert.Src)
						st.assume(t)
					} else {
						vc.errs = append(vc.errs, fmt.Sprintf("%s at-call assert: %v", vc.name, err))
					}
				} else {
					vc.ghostAssign(st, env, []*GhostAssign{ac.GA})
				}
				break
			}
		}
	}
}

// chanHooks applies "recv v assume E" after a channel receive and "send v assert E" at a send.
func (vc *FuncVC) chanHooks(st *State, in ssa.Instruction) {
	switch x := in.(type) {
	case *ssa.UnOp:
		if x.Op != token.ARROW {
			return
		}
		v := st.fr.regs[x]
		if x.CommaOk {
			st.lastRecv = v.Fs[1].T
			v = v.Fs[0]
		}
		elemT := x.X.Type().Underlying().(*types.Chan).Elem()
		for _, rc := range vc.con.Recv {
			vars := vc.specVars(st)
			vars[rc.Var] = SV{V: v, T: elemT}
			env := st.specEnv(vc.pkg, vars)
			t, err := env.Bool(rc.C.E)
			if err != nil {
				vc.errs = append(vc.errs, fmt.Sprintf("%s recv: %v", vc.name, err))
				continue
			}
			if x.CommaOk {
				t = fmt.Sprintf("(=> %s %s)", st.fr.regs[x].Fs[1].T, t)
			}
			st.assume(t)
			st.g.note("channel contract: received values satisfy the declared channel invariant (" + rc.C.Src + "), which every send in the module must establish")
		}
	case *ssa.Send:
		for _, sc := range vc.con.Send {
			vars := vc.specVars(st)
			vars[sc.Var] = SV{V: st.val(x.X), T: x.X.Type()}
			env := st.specEnv(vc.pkg, vars)
			t, err := env.Bool(sc.C.E)
			if err != nil {
				vc.errs = append(vc.errs, fmt.Sprintf("%s send: %v", vc.name, err))
				continue
			}
			st.oblige("send["+sc.C.Label+"]", t, sc.C.Src)
		}
	}
}

// loopCut handles arrival at a loop header of the verified function. Returns false if the path ends here.
func (vc *FuncVC) loopCut(st *State, li *loopInfo, prev *ssa.BasicBlock, phis []*ssa.Phi) bool {
	if li.header.Comment == "rangeindex.loop" && st.fr.locals != nil {
		for _, in := range li.header.Instrs {
			if bo, ok := in.(*ssa.BinOp); ok && bo.Op == token.LSS {
				if yv, ok := st.fr.regs[bo.Y]; ok {
					st.fr.locals["rangelen"] = yv
					st.fr.localT["rangelen"] = bo.Y.Type()
					if st.fr.localSrc == nil {
						st.fr.localSrc = map[string]ssa.Value{}
					}
					st.fr.localSrc["rangelen"] = bo.Y
				}
				break
			}
		}
	}
	ls := vc.con.Loops[li.ord]
	back := prev != nil && li.header.Dominates(prev) && li.blocks[prev]
	if st.dry != nil {
		if back {
			// ghost updates at the back edge write heaps too: they belong to the loop's write set
			if ls != nil && len(ls.Ghost) > 0 {
				vc.ghostAssign(st, st.specEnv(vc.pkg, vc.specVars(st)), ls.Ghost)
			}
			return false
		}
		if ls != nil && ls.FullCut {
			if vc.cutStarted[li.ord] {
				return false
			}
			vc.cutStarted[li.ord] = true
		}
		for _, h := range sortedKeys(st.g.heapSort) {
			if h != "$alive" && h != "$brk" {
				st.heaps[h] = st.g.heapConst(h, st.g.heapSort[h])
			}
		}
		for _, p := range phis {
			v := st.freshVal(p.Type(), "loop."+p.Comment)
			vc.setPhi(st, p, v)
		}
		return true
	}
	if ls == nil {
		return false
	}
	kind := fmt.Sprintf("loop%d", li.ord)
	if back {
		env := st.specEnv(vc.pkg, vc.specVars(st))
		if len(ls.Ghost) > 0 {
			vc.ghostAssign(st, env, ls.Ghost)
			env = st.specEnv(vc.pkg, vc.specVars(st))
		}
		if vc.con.ChainEnsures {
			// sequential asserts: each invariant is re-established assuming the ones before it
			pcLen := len(st.pc)
			for _, c := range ls.Invariants {
				vc.checkClauses(st, env, []*Clause{c}, kind+".inv-preserved")
				vc.assumeClauses(st, env, []*Clause{c}, kind+".inv-preserved")
			}
			st.pc = st.pc[:pcLen]
		} else {
			vc.checkClauses(st, env, ls.Invariants, kind+".inv-preserved")
		}
		if os.Getenv("GOVC_PROBE") != "" {
			st.oblige(kind+".inv-preserved[probe-false]", "false", "false (vacuity probe: the back edge must be reachable)")
		}
		fg := vc.frameGoals(st, sortedKeys(li.writes))
		for _, h := range sortedKeys(fg) {
			st.oblige(kind+".frame["+h+"]", fg[h], "loop frame of heap "+h)
		}
		if ls.Decreases != nil {
			if le := st.loopSt[li.ord]; le != nil {
				m, err := env.Value(ls.Decreases.E)
				if err == nil {
					st.oblige(kind+".decreases", fmt.Sprintf("(and (>= %s 0) (< %s %s))", le.measure, m.V.T, le.measure), ls.Decreases.Src)
				} else {
					vc.errs = append(vc.errs, fmt.Sprintf("%s %s decreases: %v", vc.name, kind, err))
				}
			}
		}
		return false
	}
	env := st.specEnv(vc.pkg, vc.specVars(st))
	vc.checkClauses(st, env, ls.Invariants, kind+".inv-entry")
	if ls.FullCut {
		if vc.cutStarted[li.ord] {
			return false
		}
		vc.cutStarted[li.ord] = true
		vc.fullCut(st)
		// range loops: the hidden length register is by definition the length of the ranged slice value
		// (both are immutable registers computed before the loop on every path)
		if li.header.Comment == "rangeindex.loop" {
			for _, in := range li.header.Instrs {
				if bo, ok := in.(*ssa.BinOp); ok && bo.Op == token.LSS {
					if call, ok := bo.Y.(*ssa.Call); ok {
						if bi, ok := call.Call.Value.(*ssa.Builtin); ok && bi.Name() == "len" && len(call.Call.Args) == 1 {
							if sv, ok := st.fr.regs[call.Call.Args[0]]; ok && sv.K == KSlice {
								if lv, ok := st.fr.regs[bo.Y]; ok {
									st.assume(fmt.Sprintf("(= %s %s)", lv.T, sv.Fs[1].T))
								}
							}
						}
					}
					break
				}
			}
		}
	}
	for _, h := range sortedKeys(li.writes) {
		if _, known := st.g.heapSort[h]; known && h != "$alive" && h != "$brk" {
			st.havocHeap(h)
		}
	}
	if li.writes["$brk"] {
		old := st.cur("$brk", "(Array Int Int)")
		st.heaps["$brk"] = st.g.heapConst("$brk", "(Array Int Int)")
		st.assume(fmt.Sprintf("(>= (select %s 0) (select %s 0))", st.heaps["$brk"], old))
	}
	if li.writes["$alive"] {
		// allocations in the loop: alive set grows monotonically
		old := st.cur("$alive", "(Array Int Bool)")
		st.heaps["$alive"] = st.g.heapConst("$alive", "(Array Int Bool)")
		st.assume(fmt.Sprintf("(forall ((a Int)) (=> (select %s a) (select %s a)))", old, st.heaps["$alive"]))
	}
	for _, p := range phis {
		v := st.freshVal(p.Type(), "loop."+p.Comment)
		vc.setPhi(st, p, v)
	}
	env = st.specEnv(vc.pkg, vc.specVars(st))
	vc.assumeClauses(st, env, ls.Invariants, kind+".invariant")
	if vc.step != nil && st.step != nil {
		// the global invariants hold between steps, hence at every loop head
		for _, c := range vc.step.spec.Invs {
			if t, err := env.Bool(c.E); err == nil {
				st.assume(t)
			}
		}
		st.step.touched = true
	}
	frameHeaps := sortedKeys(li.writes)
	if ls.FullCut {
		frameHeaps = sortedKeys(st.g.heapSort)
	}
	fg := vc.frameGoals(st, frameHeaps)
	for _, h := range sortedKeys(fg) {
		st.assume(fg[h])
	}
	if ls.Decreases != nil {
		if m, err := env.Value(ls.Decreases.E); err == nil {
			c := st.g.fresh("measure", "Int")
			st.assume(fmt.Sprintf("(= %s %s)", c, m.V.T))
			st.loopSt[li.ord] = &loopEntry{measure: c}
		}
	}
	st.pathLog = append(st.pathLog, fmt.Sprintf("L%d", li.ord))
	return true
}

func (vc *FuncVC) setPhi(st *State, p *ssa.Phi, v Val) {
	st.fr.regs[p] = v
	if p.Comment != "" {
		st.fr.locals[p.Comment] = v
		st.fr.localT[p.Comment] = p.Type()
		if st.fr.localSrc == nil {
			st.fr.localSrc = map[string]ssa.Value{}
		}
		st.fr.localSrc[p.Comment] = p
	}
}

// fullCut forgets everything path-dependent at a loop head declared "loop k cut": the path condition beyond the
// function's entry assumptions, every heap and every SSA register. What the continuation knows is the loop
// invariant (plus the frame relative to the entry state).
func (vc *FuncVC) fullCut(st *State) {
	if vc.entryPC < len(st.pc) {
		st.pc = append([]string(nil), st.pc[:vc.entryPC]...)
	}
	for _, h := range sortedKeys(st.g.heapSort) {
		st.heaps[h] = st.g.heapConst(h, st.g.heapSort[h])
		st.markWritten(h)
	}
	if b0, ok := st.old["$brk"]; ok {
		st.assume(fmt.Sprintf("(>= (select %s 0) (select %s 0))", st.heaps["$brk"], b0))
	} else if _, known := st.g.heapSort["$brk"]; known {
		st.assume(fmt.Sprintf("(>= (select %s 0) (select %s 0))", st.heaps["$brk"], st.g.heap0("$brk", "(Array Int Int)")))
	}
	params := map[ssa.Value]bool{}
	for _, p := range vc.fn.Params {
		params[p] = true
	}
	for v := range st.fr.regs {
		if params[v] {
			continue
		}
		t := v.Type()
		nv := st.freshVal(t, "cut."+v.Name())
		if pt, ok := t.Underlying().(*types.Pointer); ok {
			nv = st.ptrTo(pt.Elem(), nv.T)
		}
		st.fr.regs[v] = nv
	}
	for name, src := range st.fr.localSrc {
		if v, ok := st.fr.regs[src]; ok {
			st.fr.locals[name] = v
		}
	}
	for name, src := range st.fr.addrSrc {
		if v, ok := st.fr.regs[src]; ok {
			if pt, ok := src.Type().Underlying().(*types.Pointer); ok {
				st.fr.localAddr[name] = SV{V: v, T: src.Type(), Deref: pt.Elem()}
			}
		}
	}
	st.loopSt = map[int]*loopEntry{}
	st.fr.defers = nil
	st.pathLog = append(st.pathLog, "CUT")
}

// finish: return of the verified function.
func (vc *FuncVC) finish(st *State, res Val) {
	vc.paths++
	if st.dry != nil {
		return
	}
	vars := vc.specVars(st)
	vc.bindResults(vars, vc.con, vc.fn, vc.fn.Signature, res)
	env := st.specEnv(vc.pkg, vars)
	if len(vc.con.GhostExit) > 0 {
		vc.ghostAssign(st, env, vc.con.GhostExit)
		env = st.specEnv(vc.pkg, vars)
	}
	if vc.con.ChainEnsures {
		for _, c := range vc.con.Ensures {
			vc.checkClauses(st, env, []*Clause{c}, "ensures")
			vc.assumeClauses(st, env, []*Clause{c}, "ensures")
		}
	} else {
		vc.checkClauses(st, env, vc.con.Ensures, "ensures")
	}
	if vc.con.Drains {
		// a worker that ranges over a work channel must not return while the channel may still deliver work
		g := "false"
		if st.lastRecv != "" {
			g = not(st.lastRecv)
		}
		st.oblige("drain[work-channel]", g, "return before the work channel is closed (the feeder would block forever)")
	}
	vc.frameCheck(st, env)
}

// frameGoals: for every heap in hs that is not wholly modifiable, the formula stating that the heap equals its
// entry version except at the locations listed in the modifies clause and at addresses not alive at entry.
func (vc *FuncVC) frameGoals(st *State, hs []string) map[string]string {
	con := vc.con
	out := map[string]string{}
	if con.ModAll || !con.FrameChecked {
		return out
	}
	whole := map[string]bool{}
	locs := map[string][]*Loc{}
	regions := map[string][][2]string{}
	oldEnv := st.specEnv(vc.pkg, vc.entryVars)
	oldEnv.heaps = st.old
	for _, m := range con.Modifies {
		if h, lo, hi, ok := vc.elemsRegion(oldEnv, m); ok {
			if h != "" {
				regions[h] = append(regions[h], [2]string{lo, hi})
			}
			continue
		}
		if hs, ok := vc.mapHeapsOf(oldEnv, m); ok {
			for _, h := range hs {
				whole[h] = true
			}
			continue
		}
		if hn, ok := modHeapName(m); ok {
			for _, h := range vc.heapsOfName(vc.pkg, hn) {
				whole[h] = true
			}
			continue
		}
		// locations are evaluated in the pre-state
		if l := oldEnv.tryLoc(m); l != nil {
			if l.Whole {
				whole[l.Heap] = true
			} else if _, isSlice := l.Typ.Underlying().(*types.Slice); isSlice {
				for _, suf := range []string{"#ptr", "#len", "#cap"} {
					locs[l.Heap+suf] = append(locs[l.Heap+suf], l)
				}
			} else {
				locs[l.Heap] = append(locs[l.Heap], l)
			}
		} else {
			vc.errs = append(vc.errs, fmt.Sprintf("%s modifies %s: not a location in the pre-state", vc.name, m.String()))
		}
	}
	for _, h := range hs {
		if whole[h] || h == "$alive" || h == "$brk" {
			continue
		}
		cur, ok := st.heaps[h]
		if !ok {
			continue
		}
		old, ok := st.old[h]
		if !ok {
			old = st.g.heap0(h, st.g.heapSort[h])
		}
		if cur == old {
			continue
		}
		expect := old
		for _, l := range locs[h] {
			if l.Sub != "" {
				expect = fmt.Sprintf("(store %s %s (store (select %s %s) %s (select (select %s %s) %s)))", expect, l.Idx, expect, l.Idx, l.Sub, cur, l.Idx, l.Sub)
			} else {
				expect = fmt.Sprintf("(store %s %s (select %s %s))", expect, l.Idx, cur, l.Idx)
			}
		}
		brk0 := st.old["$brk"]
		if brk0 == "" {
			brk0 = st.g.heap0("$brk", "(Array Int Int)")
		}
		guard := fmt.Sprintf("(< fa (select %s 0))", brk0)
		for _, r := range regions[h] {
			guard = fmt.Sprintf("(and %s (or (< fa %s) (>= fa %s)))", guard, r[0], r[1])
		}
		out[h] = fmt.Sprintf("(forall ((fa Int)) (! (=> %s (= (select %s fa) (select %s fa))) :pattern ((select %s fa))))", guard, cur, expect, cur)
	}
	return out
}

// frameCheck: every heap written on the path must be covered by the modifies clause.
func (vc *FuncVC) frameCheck(st *State, env *SpecEnv) {
	goals := vc.frameGoals(st, sortedKeys(st.written))
	for _, h := range sortedKeys(goals) {
		st.oblige("frame["+h+"]", goals[h], "heap "+h+" changed outside the modifies clause")
	}
}

func (vc *FuncVC) onlyFreshWrites(h string) bool { return false }

// elemsRegion resolves elems(e): all elements of slice e (scalar element type) as an address region of one heap.
func (vc *FuncVC) elemsRegion(env *SpecEnv, m *Expr) (heap, lo, hi string, ok bool) {
	if m.Op != "call" || m.Name != "elems" || len(m.Args) != 1 {
		return "", "", "", false
	}
	sv, err := env.Value(m.Args[0])
	if err != nil || sv.V.K != KSlice {
		vc.errs = append(vc.errs, fmt.Sprintf("modifies %s: not a slice (%v)", m.String(), err))
		return "", "", "", true
	}
	sl := sv.T.Underlying().(*types.Slice)
	switch sl.Elem().Underlying().(type) {
	case *types.Struct, *types.Slice, *types.Array:
		vc.errs = append(vc.errs, fmt.Sprintf("modifies %s: only slices of scalars are supported", m.String()))
		return "", "", "", true
	}
	sz := vc.g.P.sizeof(sl.Elem())
	return "mem." + memKey(sl.Elem()), sv.V.Fs[0].T, fmt.Sprintf("(+ %s %s)", sv.V.Fs[0].T, mulC(sv.V.Fs[1].T, sz)), true
}

// feasible prunes branches whose path condition is unsatisfiable (quick solver call; anything but "unsat" keeps
// the branch). Pruning never loses obligations: an infeasible path only yields vacuously valid ones.
func (vc *FuncVC) feasible(st *State) bool {
	if st.dry != nil || !pruneInfeasible {
		return true
	}
	vc.nFeas++
	// only the quantifier-free part of the path condition is used (weaker, hence still sound for pruning; fast)
	var qf []string
	for _, a := range st.pc {
		if !strings.Contains(a, "(forall ") && !strings.Contains(a, "(exists ") {
			qf = append(qf, a)
		}
	}
	o := &Obligation{Name: "feasibility", NDecl: len(vc.g.decls), PC: qf, Goal: "false"}
	f := filepath.Join(os.TempDir(), fmt.Sprintf("govc-feas-%d-%d.smt2", os.Getpid(), vc.nFeas))
	os.WriteFile(f, []byte(vc.g.smtText(o, false)), 0o644)
	defer os.Remove(f)
	ctx, cancel := context.WithTimeout(context.Background(), 60*time.Second)
	defer cancel()
	r := runSolver(ctx, SolverCfg{"z3", []string{"prlimit", "--cpu=2", "--", "z3", "-smt2"}}, f)
	if r.res == "unsat" {
		vc.pruned++
		return false
	}
	return true
}

var pruneInfeasible = true

// storeOrdinal: 1-based source-order position of a Store instruction within its function.
func (vc *FuncVC) storeOrdinal(fn *ssa.Function, in ssa.Instruction) int {
	if vc.storeOrd == nil {
		vc.storeOrd = map[ssa.Instruction]int{}
	}
	if k, ok := vc.storeOrd[in]; ok {
		return k
	}
	var stores []ssa.Instruction
	for _, b := range fn.Blocks {
		for _, i := range b.Instrs {
			if _, ok := i.(*ssa.Store); ok {
				stores = append(stores, i)
			}
		}
	}
	sort.SliceStable(stores, func(a, b int) bool { return stores[a].Pos() < stores[b].Pos() })
	for k, s := range stores {
		vc.storeOrd[s] = k + 1
	}
	return vc.storeOrd[in]
}

// renameObligations gives the obligations of a contract variant ("f@step") their own names.
func (vc *FuncVC) renameObligations(name string) {
	for _, o := range vc.obls {
		o.Name = name + "#" + o.Kind
		o.Func = name
	}
	triv := map[string]int{}
	for k, v := range vc.trivial {
		triv[k] = v
	}
	vc.trivial = triv
	vc.name = name
}

// flushAtCall applies the at-call ghost updates of the call being executed (step mode: inside the step).
func (vc *FuncVC) flushAtCall(st *State) {
	if vc.pendingAt != nil {
		x := vc.pendingAt
		vc.pendingAt = nil
		// the call belongs to the top frame (at-call clauses are only attached to calls of the verified
		// function itself); when the flush happens inside an inlined step callee, evaluate it there
		cur := st.fr
		fr := st.fr
		for fr != nil && fr.fn != x.Parent() {
			fr = fr.caller
		}
		if fr == nil {
			return
		}
		st.fr = fr
		vc.atCall(st, x)
		st.fr = cur
	}
}
