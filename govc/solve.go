package main

// SMT emission and solver race (z3-new, z3, cvc5).

import (
	"bytes"
	"context"
	"crypto/sha1"
	"fmt"
	"os"
	"os/exec"
	"path/filepath"
	"strings"
	"sync"
	"time"
)

type SolverCfg struct {
	Name string
	Cmd  []string
}

// Solver time limits are CPU seconds (prlimit), so verdicts do not depend on machine load; the wall-clock cap is
// a generous multiple that only guards against a wedged process.
func solvers(timeoutS int, seed int) []SolverCfg {
	lim := fmt.Sprintf("--cpu=%d", timeoutS)
	return []SolverCfg{
		{"z3-new", []string{"prlimit", lim, "--", "z3-new", "smt.random_seed=" + fmt.Sprint(seed), "-smt2"}},
		{"z3", []string{"prlimit", lim, "--", "z3", "smt.random_seed=" + fmt.Sprint(seed), "-smt2"}},
		{"cvc5", []string{"prlimit", lim, "--", "cvc5", "--seed=" + fmt.Sprint(seed), "--lang=smt2"}},
	}
}

const wallFactor = 30

func (g *Gen) smtText(o *Obligation, wantModel bool) string {
	var b strings.Builder
	b.WriteString("; obligation " + o.Name + "\n")
	if o.Info != "" {
		b.WriteString("; " + strings.ReplaceAll(o.Info, "\n", " ") + "\n")
	}
	if wantModel {
		b.WriteString("(set-option :produce-models true)\n")
	}
	b.WriteString("(set-logic ALL)\n")
	for _, d := range g.decls[:o.NDecl] {
		b.WriteString(d)
		b.WriteByte('\n')
	}
	for _, a := range o.PC {
		b.WriteString("(assert " + a + ")\n")
	}
	b.WriteString("(assert (not " + o.Goal + "))\n")
	b.WriteString("(check-sat)\n")
	return b.String()
}

type solveResult struct {
	res    string // unsat | sat | unknown | timeout | error
	solver string
	ms     int64
	out    string
}

func runSolver(ctx context.Context, sc SolverCfg, file string) solveResult {
	t0 := time.Now()
	cmd := exec.CommandContext(ctx, sc.Cmd[0], append(sc.Cmd[1:], file)...)
	var out bytes.Buffer
	cmd.Stdout = &out
	cmd.Stderr = &out
	cmd.Run()
	ms := time.Since(t0).Milliseconds()
	if ps := cmd.ProcessState; ps != nil {
		ms = (ps.UserTime() + ps.SystemTime()).Milliseconds() // CPU time: independent of machine load
	}
	first := strings.TrimSpace(strings.SplitN(out.String(), "\n", 2)[0])
	r := solveResult{solver: sc.Name, ms: ms, out: out.String()}
	switch first {
	case "unsat", "sat", "unknown":
		r.res = first
	case "timeout":
		r.res = "timeout"
	default:
		if ctx.Err() != nil || first == "" {
			r.res = "timeout" // killed by the CPU limit or the wall cap
		} else if strings.Contains(out.String(), "timeout") || strings.Contains(out.String(), "interrupted") {
			r.res = "timeout"
		} else {
			r.res = "error"
		}
	}
	return r
}

// race runs the solvers concurrently; the first definite answer (sat/unsat) wins.
func race(file string, timeoutS, seed int, only string) solveResult {
	ctx, cancel := context.WithTimeout(context.Background(), time.Duration(timeoutS*wallFactor)*time.Second)
	defer cancel()
	scs := solvers(timeoutS, seed)
	ch := make(chan solveResult, len(scs))
	n := 0
	for _, sc := range scs {
		if only != "" && sc.Name != only {
			continue
		}
		n++
		go func(sc SolverCfg) { ch <- runSolver(ctx, sc, file) }(sc)
	}
	var last solveResult
	var outs []string
	for i := 0; i < n; i++ {
		r := <-ch
		outs = append(outs, r.solver+": "+r.res)
		if r.res == "unsat" || r.res == "sat" {
			cancel()
			return r
		}
		if last.res == "" || last.res == "error" || (r.res == "unknown" && last.res == "timeout") {
			last = r
		}
	}
	last.out = strings.Join(outs, "; ") + "\n" + last.out
	return last
}

// Discharge solves all obligations in parallel. Identical queries are solved once.
func Discharge(g *Gen, obls []*Obligation, workDir string, timeoutS, seed, par int, progress bool) {
	os.MkdirAll(workDir, 0o755)
	type job struct {
		file string
		obls []*Obligation
	}
	byHash := map[string]*job{}
	var jobs []*job
	for _, o := range obls {
		txt := g.smtText(o, false)
		// hash without the comment header and unused declarations? keep simple: hash PC+goal
		h := sha1.Sum([]byte(strings.Join(o.PC, "\n") + "\n#" + o.Goal))
		key := fmt.Sprintf("%x", h[:10])
		if j, ok := byHash[key]; ok {
			j.obls = append(j.obls, o)
			o.File = j.file
			continue
		}
		f := filepath.Join(workDir, key+".smt2")
		os.WriteFile(f, []byte(txt), 0o644)
		o.File = f
		j := &job{file: f, obls: []*Obligation{o}}
		byHash[key] = j
		jobs = append(jobs, j)
	}
	sem := make(chan struct{}, par)
	var wg sync.WaitGroup
	for _, j := range jobs {
		wg.Add(1)
		sem <- struct{}{}
		go func(j *job) {
			defer wg.Done()
			defer func() { <-sem }()
			r := race(j.file, timeoutS, seed, "")
			for _, o := range j.obls {
				o.Result, o.Ms, o.Solver = r.res, r.ms, r.solver
				if r.res != "unsat" && r.res != "sat" {
					o.Model = r.out
				}
			}
		}(j)
	}
	wg.Wait()
}

// modelFor re-runs a refuted obligation with model production and returns the solver output.
func modelFor(g *Gen, o *Obligation, workDir string, timeoutS int) string {
	txt := g.smtText(o, true) + "(get-model)\n"
	f := filepath.Join(workDir, "model_"+filepath.Base(o.File))
	os.WriteFile(f, []byte(txt), 0o644)
	ctx, cancel := context.WithTimeout(context.Background(), time.Duration(timeoutS*wallFactor)*time.Second)
	defer cancel()
	r := runSolver(ctx, solvers(timeoutS, 0)[0], f)
	return r.out
}
