#!/usr/bin/env python3
"""Writes /verif/SEEDED.md: which registered check catches which seeded change (from seeded/<id>/meta.json)."""
import json,glob,os
V='/verif'
rows=[]
for d in sorted(glob.glob(f'{V}/seeded/*/')):
    if not os.path.exists(d+'meta.json'): continue
    m=json.load(open(d+'meta.json'))
    notes=open(d+'notes.md').read().split('\n') if os.path.exists(d+'notes.md') else ['']
    title=notes[0].lstrip('# ').strip()
    caught=[]
    for cb in m.get('caught_by',[]):
        if isinstance(cb,dict) and cb.get('exit')==1:
            v=cb.get('violations',[])
            caught.append(f"{cb['check']}: {len(v)} violation line(s), first `{v[0][:140] if v else ''}`")
        elif isinstance(cb,dict):
            caught.append(f"{cb['check']}: not caught (exit {cb.get('exit')})")
        else:
            caught.append(str(cb))
    rows.append((m['id'],m['breaks_property'],title,m.get('confirmed',{}).get('all'),caught or ['no registered check for this property / not run']))
out=["# Seeded property-breaking changes and the checks that catch them","",
"Each change was produced by an agent that saw only the property text and a scratch worktree, then re-confirmed here (builds, demo passes without / fails with, package tests pass with). `tools/seedrun.py` regenerates the `caught_by` fields; `tools/mkseeded.py` regenerates this file.","",
"| id | breaks | change | confirmed | caught by |","|----|--------|--------|-----------|-----------|"]
for r in rows:
    out.append(f"| {r[0]} | {r[1]} | {r[2]} | {'yes' if r[3] else 'NO'} | {'<br>'.join(r[4])} |")
open(f'{V}/SEEDED.md','w').write('\n'.join(out)+'\n')
print(len(rows),'seeds')
