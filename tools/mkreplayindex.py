#!/usr/bin/env python3
"""Regenerates /verif/replay/index.json: fixed head (schedule replays and the regression tests of the repaired defects)
followed by the demonstration tests of the confirmed seeded changes, keyed by the functions whose obligations
failed when the change was applied (seeded/<id>/meta.json caught_by)."""
import json,glob,os,re
V='/verif'
head=json.load(open(f'{V}/replay/index.head.json'))
idx=list(head)
for d in sorted(glob.glob(f'{V}/seeded/*/')):
    if not os.path.exists(d+'meta.json'): continue
    m=json.load(open(d+'meta.json'))
    if not m.get('confirmed',{}).get('all'): continue
    funcs=set()
    for cb in m.get('caught_by',[]):
        if isinstance(cb,dict):
            for v in cb.get('violations',[]):
                funcs.add(v.split('#')[0])
    if not funcs: continue
    pat="^("+"|".join(re.escape(f) for f in sorted(funcs))+")#"
    rel=os.path.relpath(d,f'{V}/replay')
    idx.append({"obligation":pat,"pkg":m['demo_package_dir'],"file":rel+"/demo_test.go","run":"("+"|".join(m['demo_tests'])+")","what":"demonstration test of seeded change "+m['id']+" ("+m['breaks_property']+")"})
json.dump(idx,open(f'{V}/replay/index.json','w'),indent=1)
print(len(idx),'replay entries')
