#!/bin/bash
# Must-fail corpus: applies each reverse patch of a repaired defect (and other known-bad patches) to /repo, runs the
# quick check of the property it breaks and expects exit 1 with a VIOLATION line; restores /repo. Exit 0 iff every
# patch is caught. usage: tools/selftest.sh [tag ...]
export GOFLAGS=-mod=mod GOPROXY=off GOSUMDB=off GOTOOLCHAIN=local GOVC_NO_EVIDENCE=1
cd /verif || exit 2
git -C /repo diff --quiet || { echo "/repo has uncommitted changes"; exit 2; }
declare -A PROP=( [revert-f1]=C09 [revert-f2]=C10 [revert-f3]=C10 [revert-f4]=C02 [revert-f6a]=C11 [revert-f6bc]=C11
  [revert-f7a]=C12 [revert-f11]=C12 [revert-f7b]=C12 [revert-f9]=C18 [revert-f10b]=C19 [revert-f10a]=C11 [F5-open-load-then-add]=C08 )
tags=${@:-${!PROP[@]}}
rc=0
for t in $tags; do
  p=/verif/selftest/mutants/$t.patch; prop=${PROP[$t]}
  git -C /repo apply --check $p 2>/dev/null || { echo "$t: PATCH DOES NOT APPLY"; rc=1; continue; }
  git -C /repo apply $p
  out=$(bin/govc check -property $prop 2>&1); code=$?
  git -C /repo checkout -- .
  n=$(echo "$out" | grep -c '^VIOLATION')
  first=$(echo "$out" | grep -m1 '^VIOLATION' | sed 's/.*obligation=//' | cut -c1-150)
  if [ $code -eq 1 ] && [ $n -gt 0 ]; then echo "$t: caught by $prop ($n violation lines; first: $first)"; else echo "$t: NOT CAUGHT by $prop (exit $code)"; rc=1; fi
done
exit $rc
