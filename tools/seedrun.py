#!/usr/bin/env python3
"""Applies each seeded change in /verif/seeded/<id>/patch.diff to a scratch copy of /repo's HEAD (never to /repo itself),
runs the registered quick checks of the property it breaks (meta.json checks_to_run, default: the property) against the
copy (VERIF_REPO), records the VIOLATION lines in meta.json (caught_by) and removes the copy. Usage: seedrun.py [id ...]"""
import json, os, subprocess, sys, glob, shutil
V='/verif'
man=json.load(open(f'{V}/MANIFEST.json'))
cmds={c['property_id']:c['quick_cmd'] for c in man['checks']}
ids=sys.argv[1:] or sorted(os.path.basename(d) for d in glob.glob(f'{V}/seeded/*') if os.path.isdir(d))
env=dict(os.environ, GOFLAGS='-mod=mod', GOPROXY='off', GOSUMDB='off', GOTOOLCHAIN='local', GOVC_NO_EVIDENCE='1')
for i in ids:
    d=f'{V}/seeded/{i}'
    if not os.path.exists(f'{d}/meta.json'): continue
    meta=json.load(open(f'{d}/meta.json')); prop=meta['breaks_property']
    props=[p for p in meta.get('checks_to_run',[prop]) if p in cmds]
    if not props:
        print(i, 'no registered check for', prop); meta['caught_by']=[]; json.dump(meta,open(f'{d}/meta.json','w'),indent=1); continue
    wt=f'/tmp/seedrun_{i}'
    shutil.rmtree(wt,ignore_errors=True)
    subprocess.run(f'mkdir -p {wt} && git -C /repo archive HEAD | tar -x -C {wt}',shell=True,check=True)
    if subprocess.run(['patch','-p1','-s','-d',wt,'-i',f'{d}/patch.diff']).returncode!=0:
        print(i,'PATCH DOES NOT APPLY'); meta['caught_by']=['patch no longer applies to /repo HEAD']; json.dump(meta,open(f'{d}/meta.json','w'),indent=1); shutil.rmtree(wt,ignore_errors=True); continue
    try:
        meta['caught_by']=[]
        e=dict(env, VERIF_REPO=wt)
        for pr in props:
            r=subprocess.run(cmds[pr],shell=True,cwd=V,capture_output=True,text=True,env=e)
            viol=[l for l in r.stdout.split('\n') if l.startswith('VIOLATION')]
            meta['caught_by'].append({"check":pr,"exit":r.returncode,"violations":[v.split(' obligation=')[1] if ' obligation=' in v else v for v in viol][:12]})
            print(i, pr, 'exit',r.returncode, len(viol),'violation lines', (viol[0][:200] if viol else ''), flush=True)
    finally:
        shutil.rmtree(wt,ignore_errors=True)
    if not os.environ.get('SEEDRUN_NO_WRITE'):
        json.dump(meta,open(f'{d}/meta.json','w'),indent=1)
