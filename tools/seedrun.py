#!/usr/bin/env python3
"""Applies each seeded change in /verif/seeded/<id>/patch.diff to /repo, runs the registered quick check of the
property it breaks, records the VIOLATION lines in meta.json (caught_by), and reverts /repo. Usage: seedrun.py [id ...]"""
import json, os, subprocess, sys, glob
V='/verif'
man=json.load(open(f'{V}/MANIFEST.json'))
cmds={c['property_id']:c['quick_cmd'] for c in man['checks']}
ids=sys.argv[1:] or sorted(os.path.basename(d) for d in glob.glob(f'{V}/seeded/*') if os.path.isdir(d))
env=dict(os.environ, GOFLAGS='-mod=mod', GOPROXY='off', GOSUMDB='off', GOTOOLCHAIN='local')
assert subprocess.run(['git','-C','/repo','status','--porcelain','--untracked-files=no'],capture_output=True,text=True).stdout.strip()=='' , "/repo not clean"
for i in ids:
    d=f'{V}/seeded/{i}'; meta=json.load(open(f'{d}/meta.json')); prop=meta['breaks_property']
    props=[p for p in meta.get('checks_to_run',[prop]) if p in cmds]
    if not props:
        print(i, 'no registered check for', prop); continue
    if subprocess.run(['git','-C','/repo','apply','--check',f'{d}/patch.diff']).returncode!=0:
        print(i,'PATCH DOES NOT APPLY'); meta['caught_by']=['patch no longer applies to /repo HEAD']; json.dump(meta,open(f'{d}/meta.json','w'),indent=1); continue
    subprocess.run(['git','-C','/repo','apply',f'{d}/patch.diff'],check=True)
    try:
        meta['caught_by']=[]
        env["GOVC_NO_EVIDENCE"]="1"
        for pr in props:
            r=subprocess.run(cmds[pr],shell=True,cwd=V,capture_output=True,text=True,env=env)
            viol=[l for l in r.stdout.split('\n') if l.startswith('VIOLATION')]
            meta['caught_by'].append({"check":pr,"exit":r.returncode,"violations":[v.split(' obligation=')[1] if ' obligation=' in v else v for v in viol][:12]})
            print(i, pr, 'exit',r.returncode, len(viol),'violation lines', (viol[0][:160] if viol else ''))
    finally:
        subprocess.run(['git','-C','/repo','checkout','--','.'],check=True)
    json.dump(meta,open(f'{d}/meta.json','w'),indent=1)
