#!/usr/bin/env python3
"""Regenerates /verif/MANIFEST.json from tools/props.json (per-property metadata) and the claimed obligation lists."""
import json, os, subprocess
V = '/verif'
props = [json.loads(l)["id"] for l in open(f'{V}/properties.jsonl')]
meta = json.load(open(f'{V}/tools/props.json'))
hooks = json.load(open(f'{V}/tools/hooks.json'))
# every /repo commit made for the machinery (message starts with 'verif'): hook functions and the comment-only contract files, all behind the build tag
hooks['source_commits'] = [l for l in subprocess.run(['git','-C','/repo','log','--reverse','--format=%H %s'],capture_output=True,text=True).stdout.split('\n') if l[41:].startswith('verif')]
hooks['source_commits'] = [l.split()[0] for l in hooks['source_commits']]
checks, na = [], []
for p in props:
    m = meta.get(p)
    if not m or m.get("not_applicable"):
        na.append({"property_id": p, "reason": (m or {}).get("not_applicable", "check not built yet (see DESIGN.md section 8)")})
        continue
    if not os.path.exists(f'{V}/obligations/{p}.expected'):
        na.append({"property_id": p, "reason": "check not built yet (see DESIGN.md section 8)"})
        continue
    n = sum(1 for l in open(f'{V}/obligations/{p}.expected') if l.strip())
    level = m.get("level", "proof")
    open(f'{V}/obligations/{p}.level', 'w').write(level + "\n")
    checks.append({
        "property_id": p,
        "quick_cmd": f"./bin/govc check -property {p} -tier quick",
        "thorough_cmd": f"./bin/govc check -property {p} -tier thorough",
        "evidence_file": f"evidence/{p}.json",
        "replay_cmd_template": "./bin/govc replay {path}",
        "engine": "govc",
        "level_claimed": {"category": level, "text": m["text"] + f" ({n} claimed obligations.)", "design_ref": m.get("design_ref", "DESIGN.md section 4")},
        "level_note": m["note"],
        "technique": m.get("technique", "contract-based deductive verification: weakest-precondition style VC generation over go/ssa of the real functions, contracts as //@ comments in verif-tagged files, obligations discharged by z3/cvc5"),
    })
man = {
    "version": 1,
    "setup_cmd": "cd /verif/govc && GOFLAGS=-mod=vendor GOPROXY=off GOSUMDB=off GOTOOLCHAIN=local go build -o ../bin/govc .",
    "hooks": hooks,
    "engines": [{"name": "govc", "path": "govc", "serves_properties": [c["property_id"] for c in checks],
                 "kind_free_text": "contract-based deductive verifier: VC generation over go/ssa of /repo, SMT (z3 4.8.12, z3 5.1.0, cvc5 1.0) raced per obligation"}],
    "checks": checks,
    "not_applicable": na,
    "notes": "Every check rebuilds the SSA of /repo's working tree with -tags verif, regenerates all obligations of the functions tagged with the property and compares with obligations/<id>.expected; see DESIGN.md.",
}
json.dump(man, open(f'{V}/MANIFEST.json', 'w'), indent=1)
print("checks:", [c["property_id"] for c in checks], "not_applicable:", [n["property_id"] for n in na])
