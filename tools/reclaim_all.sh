#!/bin/bash
# Re-derives every claimed obligation list (run after engine or contract changes that add/rename obligations),
# regenerates MANIFEST.json and re-runs every quick check on the unchanged tree so that the committed evidence
# files come from clean runs.
cd /verif || exit 2
git -C /repo diff --quiet || { echo "/repo has uncommitted changes"; exit 2; }
props=${@:-$(python3 -c "import json;print(' '.join(k for k,v in json.load(open('tools/props.json')).items() if 'not_applicable' not in v))")}
for p in $props; do bin/govc claim -property $p 2>&1 | tail -1; done
python3 tools/mkmanifest.py
rc=0
for p in $props; do bin/govc check -property $p | tail -1 || rc=1; done
exit $rc
