#!/bin/bash
# usage: confirm_seed.sh <seed-out-dir> <id>   e.g. /tmp/seed_C09/out/m1 C09-m1
# Confirms a seeded change in a scratch worktree: builds, demo fails with / passes without, package tests pass with.
export GOFLAGS=-mod=mod GOPROXY=off GOSUMDB=off GOTOOLCHAIN=local
src=$1; id=$2; prop=${id%%-*}
wt=/tmp/confirm_$id
dst=/verif/seeded/$id
rm -rf $wt; git -C /repo worktree add -q --detach $wt HEAD || exit 2
cd $wt
mkdir -p $dst; cp $src/patch.diff $dst/patch.diff; cp $src/demo_test.go $dst/demo_test.go; cp $src/notes.md $dst/notes.md 2>/dev/null
pkgdir=.
head -3 $src/demo_test.go | grep -q "skiplist" && pkgdir=skiplist
head -3 $src/demo_test.go | grep -q "nodetable" && pkgdir=nodetable
grep -q "^package skiplist" $src/demo_test.go && pkgdir=skiplist
grep -q "^package nodetable" $src/demo_test.go && pkgdir=nodetable
log=$dst/confirm.log; : > $log
git apply --check $src/patch.diff >> $log 2>&1 || { echo "$id: PATCH DOES NOT APPLY" | tee -a $log; git -C /repo worktree remove --force $wt; exit 1; }
cp $src/demo_test.go $pkgdir/zz_demo_test.go
tests=$(grep -o "^func Test[A-Za-z0-9_]*" $src/demo_test.go | sed 's/func //' | paste -sd'|')
echo "## demo without change (expect PASS)" >> $log
go test -vet=off -count=1 -timeout 10m -run "^($tests)\$" ./$pkgdir >> $log 2>&1; base=$?
git apply $src/patch.diff
echo "## build with change" >> $log
go build ./... >> $log 2>&1; build=$?
echo "## demo with change (expect FAIL)" >> $log
go test -vet=off -count=1 -timeout 10m -run "^($tests)\$" ./$pkgdir >> $log 2>&1; mut=$?
rm -f $pkgdir/zz_demo_test.go
echo "## package tests with change (expect ok)" >> $log
touched=$(git diff --name-only | xargs -n1 dirname | sort -u | sed 's|^\.$|.|')
pk=0
for d in $touched; do go test -vet=off -count=1 -timeout 40m ./$d >> $log 2>&1 || pk=1; done
[ "$touched" != "." ] && [ "$pkgdir" = "." ] || true
ok=false; [ $base -eq 0 ] && [ $build -eq 0 ] && [ $mut -ne 0 ] && [ $pk -eq 0 ] && ok=true
needs=$(grep -i -m3 "needs\|trigger\|manifest" $src/notes.md | tr '\n' ' ' | cut -c1-600)
python3 - "$id" "$prop" "$pkgdir" "$tests" "$base" "$build" "$mut" "$pk" "$ok" "$needs" "$dst" <<'PY'
import json,sys
id,prop,pkgdir,tests,base,build,mut,pk,ok,needs,dst=sys.argv[1:]
json.dump({"id":id,"breaks_property":prop,"demo_package_dir":pkgdir,"demo_tests":tests.split('|'),
 "needs_to_manifest":needs,
 "confirmed":{"demo_passes_without_change":base=="0","builds_with_change":build=="0","demo_fails_with_change":mut!="0","touched_package_tests_pass_with_change":pk=="0","all":ok=="true"},
 "what_was_run":["git worktree add /tmp/confirm_"+id+" HEAD (scratch, removed afterwards)","go test -run '^("+tests+")$' ./"+pkgdir+" (before and after git apply patch.diff)","go build ./...","go test -vet=off -count=1 ./<touched package dirs> with the change"],
 "caught_by":[]},open(dst+"/meta.json","w"),indent=1)
PY
cd /; git -C /repo worktree remove --force $wt
echo "$id: base=$base build=$build mut=$mut pkgtests=$pk confirmed=$ok"
