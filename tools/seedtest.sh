#!/bin/bash
# usage: seedtest.sh <patch.diff> <funcs-or-@property>   applies the patch to /repo, runs govc, restores
export GOFLAGS=-mod=mod GOPROXY=off GOSUMDB=off GOTOOLCHAIN=local GOVC_NO_EVIDENCE=1
cd /repo || exit 2
git apply --check "$1" || { echo "PATCH DOES NOT APPLY"; exit 2; }
git apply "$1"
(go build ./... 2>&1 | head -3)
if [[ "$2" == @* ]]; then
  /verif/bin/govc check -property "${2#@}" 2>&1 | grep -v "^KNOWN" | cut -c1-260 | tail -${3:-12}
else
  /verif/bin/govc vc -func "$2" 2>&1 | grep -v "^discharged\|cover-ok\|^note" | cut -c1-220 | tail -${3:-10}
fi
git checkout -- . 
