#!/bin/bash
# usage: muttest.sh <patch> <property>...  applies a must-fail patch to /repo, runs the quick checks, restores
export GOFLAGS=-mod=mod GOPROXY=off GOSUMDB=off GOTOOLCHAIN=local GOVC_NO_EVIDENCE=1
cd /repo || exit 2
git apply --check "$1" || { echo "PATCH DOES NOT APPLY: $1"; exit 2; }
git apply "$1"; shift
(go build ./... 2>&1 | head -3)
for p in "$@"; do (cd /verif && bin/govc check -property $p 2>&1 | grep "^VIOLATION\|^property=\|^KNOWN" | cut -c1-330); done
git checkout -- .
