#!/bin/bash
# usage: mut.sh <repo-file> <sed-expr> <funcs>   -- applies a sed mutation to /repo, runs govc vc on funcs, restores
f=/repo/$1
cp $f /tmp/mut_backup.$$ 
sed -i "$2" $f
if cmp -s $f /tmp/mut_backup.$$; then echo "MUTATION DID NOT APPLY"; fi
(cd /repo && go build ./... 2>&1 | head -3)
/verif/bin/govc vc -func "$3" 2>&1 | grep -v "^discharged\|cover-ok\|^note" | cut -c1-220 | tail -${4:-8}
cp /tmp/mut_backup.$$ $f; rm /tmp/mut_backup.$$
